"""Driver core for the E1 (dsched) checks: Hypothesis generates cases, the engine executes them,
property modules judge them.  See DESIGN.md §3, §7.

A *property module* (driver/props/cNN.py) provides:
  ID                   property id
  RULE                 text of the non-triviality rule
  ASSUMPTIONS          list of strings
  def example(draw, tier) -> list[str]      one Hypothesis example = a batch of case texts
  def judge(text, res) -> (violation_msg|None, nontrivial: bool, classes: list[str])
  optional: EXAMPLES = {"quick": n, "thorough": n}   examples per worker
  optional: def confirm(text, res, engine) -> violation_msg|None   (e.g. 10x budget re-run for hang reports)
"""
import hashlib, json, os, subprocess, sys, time, importlib, multiprocessing, traceback

VERIF = os.path.dirname(os.path.dirname(os.path.abspath(__file__)))
sys.path.insert(0, os.path.join(VERIF, "driver"))
sys.path.insert(0, os.path.join(VERIF, "engine"))

NWORKERS = int(os.environ.get("VERIF_WORKERS", "16"))


class Engine:
    def __init__(self, binary):
        self.binary = binary
        self.p = None
        self.procs = {}

    def start(self, early=False):
        # early: the case runs from a constructor that precedes the library's own constructors ("cfg early 1": first use of the library before it
        # initialised itself, as from another shared object's constructor)
        env = dict(os.environ)
        env.pop("DSCHED_EARLY", None)
        if early:
            env["DSCHED_EARLY"] = "1"
        self.procs[early] = subprocess.Popen([self.binary, "--server"], stdin=subprocess.PIPE, stdout=subprocess.PIPE,
                                             stderr=subprocess.DEVNULL, text=True, bufsize=1, env=env)

    def run(self, text):
        early = "\ncfg early 1\n" in text
        if self.procs.get(early) is None or self.procs[early].poll() is not None:
            self.start(early)
        self.p = self.procs[early]
        try:
            self.p.stdin.write(text)
            if not text.endswith("\n"):
                self.p.stdin.write("\n")
            self.p.stdin.write(".\n")
            self.p.stdin.flush()
            line = self.p.stdout.readline()
            if not line:
                raise IOError("engine died")
            return json.loads(line)
        except Exception as e:  # engine defect, not a property violation
            try:
                self.p.kill()
            except Exception:
                pass
            self.p = None
            self.procs[early] = None
            return {"status": "engine_error", "flags": 0, "steps": 0, "threads": 0, "msg": repr(e), "stderr": ""}

    def close(self):
        for p in self.procs.values():
            if p:
                try:
                    p.stdin.close()
                    p.wait(timeout=5)
                except Exception:
                    p.kill()


def digest(text):
    return hashlib.blake2b(text.encode(), digest_size=8).hexdigest()


class Found(Exception):
    pass


def worker(args):
    prop_name, binary, tier, seed, widx, n_examples, wall_limit, stop_file = args
    import hypothesis
    import hypothesis.internal.conjecture.engine as _ce, warnings
    warnings.filterwarnings('ignore')
    _ce.MAX_SHRINKING_SECONDS = 25
    from hypothesis import given, settings, strategies as st, HealthCheck, Phase
    mod = importlib.import_module("props." + prop_name)
    eng = Engine(binary)
    stats = {"evaluations": 0, "nontrivial": set(), "classes": {}, "samples": [], "status": {}, "violation": None,
             "inconclusive": 0, "examples": 0, "wall_budget_hit": False, "errors": []}
    t0 = time.time()
    last_fail = {}

    def run_batch(texts, record=True):
        for text in texts:
            res = eng.run(text)
            try:
                v, nontriv, classes = mod.judge(text, res)
            except Exception as e:
                stats["errors"].append("judge: " + repr(e))
                continue
            if v and hasattr(mod, "confirm"):
                v = mod.confirm(text, res, eng)
            if record:
                stats["evaluations"] += 1
                stats["status"][res["status"]] = stats["status"].get(res["status"], 0) + 1
                if res["status"] in ("budget", "timeout", "engine_error", "badcase", "stuck") and not v:
                    stats["inconclusive"] += 1
                    if res["status"] in ("badcase", "engine_error", "timeout") and len(stats["errors"]) < 5:
                        stats["errors"].append(res["status"] + ": " + res["msg"][:200] + " | " + text[:300])
                for c in classes:
                    stats["classes"][c] = stats["classes"].get(c, 0) + 1
                if nontriv:
                    stats["nontrivial"].add(digest(text))
                    if len(stats["samples"]) < 2:
                        stats["samples"].append({"case": text.splitlines(), "result": {k: res[k] for k in ("status", "steps", "threads", "flags")}, "classes": classes})
            if v:
                last_fail["text"] = text
                last_fail["msg"] = v
                last_fail["res"] = res
                raise Found(v)

    chunk = 0
    done = 0
    CH = 50
    while done < n_examples and stats["violation"] is None:
        if time.time() - t0 > wall_limit:
            stats["wall_budget_hit"] = True
            break
        if os.path.exists(stop_file):
            stats["stopped_early"] = True
            break
        n = min(CH, n_examples - done)
        hseed = int(hashlib.sha256(("%s/%s/%s/%d/%d" % (seed, prop_name, tier, widx, chunk)).encode()).hexdigest()[:12], 16)

        @hypothesis.seed(hseed)
        @settings(max_examples=n, database=None, deadline=None, derandomize=False, report_multiple_bugs=False,
                  phases=[Phase.generate, Phase.shrink], suppress_health_check=list(HealthCheck), print_blob=False, verbosity=hypothesis.Verbosity.quiet)
        @given(st.data())
        def prop(data):
            texts = mod.example(data.draw, tier)
            stats["examples"] += 1
            run_batch(texts)

        try:
            prop()
        except Found:
            # the last failing execution is Hypothesis' minimal example
            stats["violation"] = {"case": last_fail["text"], "msg": last_fail["msg"], "res": last_fail["res"]}
        except Exception as e:
            if "text" in last_fail:
                stats["violation"] = {"case": last_fail["text"], "msg": last_fail["msg"], "res": last_fail["res"]}
            else:
                stats["errors"].append("hypothesis: " + "".join(traceback.format_exception_only(type(e), e))[:500])
                if len(stats["errors"]) > 20:
                    break
        done += n
        chunk += 1
    # nondeterminism guard: a violation must reproduce 3x
    if stats["violation"]:
        text = stats["violation"]["case"]
        rep = 0
        for _ in range(3):
            res = eng.run(text)
            v, _, _ = mod.judge(text, res)
            if v and hasattr(mod, "confirm"):
                v = mod.confirm(text, res, eng)
            if v:
                rep += 1
        stats["violation"]["reproduced"] = rep
        if rep >= 2:
            open(stop_file, "w").close()   # another worker has a confirmed violation: the rest may stop
    eng.close()
    stats["nontrivial"] = sorted(stats["nontrivial"])
    stats["wall_s"] = time.time() - t0
    return stats


def probe_known(mod, binary):
    """For every listed (unrepaired) finding of this property: re-run its committed probe case; if it still fails as recorded, print the
    KNOWN-FINDING line (the generators exclude that input class by construction, so the search continues behind it)."""
    hits = []
    eng = None
    for f in load_known().get("findings", []):
        if f["property"] != mod.ID or f.get("engine") != "dsched" or not f.get("probe"):
            continue
        if eng is None:
            eng = Engine(binary)
        text = "".join(l for l in open(os.path.join(VERIF, f["probe"])) if not l.startswith("#"))
        res = eng.run(text)
        v, _, _ = mod.judge(text, res)
        if v and hasattr(mod, "confirm"):
            v = mod.confirm(text, res, eng)
        import re
        if v and re.search(f["msg_regex"], v):
            print("KNOWN-FINDING: property=%s %s" % (mod.ID, f["what"]))
            hits.append(f["id"])
    if eng:
        eng.close()
    return hits


def run_property(prop_name, tier, seed):
    """Returns (exit_code, evidence_dict). Prints VIOLATION / KNOWN-FINDING lines."""
    import build as ebuild
    t0 = time.time()
    binary = ebuild.build()
    mod = importlib.import_module("props." + prop_name)
    probe_hits = probe_known(mod, binary)
    ex = getattr(mod, "EXAMPLES", {"quick": 120, "thorough": 2500})[tier]
    wall = {"quick": 75, "thorough": 1500}[tier]
    wall = int(os.environ.get("VERIF_WALL", wall))
    ex = int(os.environ.get("VERIF_EXAMPLES", ex))
    stop_file = os.path.join(VERIF, "build", "stop-%s-%d" % (prop_name, os.getpid()))
    args = [(prop_name, binary, tier, seed, w, ex, wall, stop_file) for w in range(NWORKERS)]
    try:
        with multiprocessing.Pool(NWORKERS) as pool:
            results = pool.map(worker, args)
    finally:
        if os.path.exists(stop_file):
            os.unlink(stop_file)
    rc, ev = aggregate(mod, tier, seed, results, time.time() - t0, binary)
    ev["coverage"]["known_finding_probes_still_failing"] = probe_hits
    return rc, ev


def load_known():
    p = os.path.join(VERIF, "known_findings.json")
    if os.path.exists(p):
        return json.load(open(p))
    return {"findings": [], "fixed": []}


def match_known(pid, text, msg):
    import re
    for f in load_known().get("findings", []):
        if f["property"] != pid:
            continue
        if re.search(f["msg_regex"], msg) and all(re.search(r, text, re.M) for r in f.get("case_regexes", [])):
            return f
    return None


def aggregate(mod, tier, seed, results, wall_s, binary):
    pid = mod.ID
    nontriv = set()
    classes, status = {}, {}
    evals = incon = examples = 0
    samples, errors, viols, nonrepro = [], [], [], []
    for r in results:
        evals += r["evaluations"]; incon += r["inconclusive"]; examples += r["examples"]
        nontriv.update(r["nontrivial"])
        for k, v in r["classes"].items():
            classes[k] = classes.get(k, 0) + v
        for k, v in r["status"].items():
            status[k] = status.get(k, 0) + v
        if len(samples) < 4:
            samples.extend(r["samples"][:1])
        errors.extend(r["errors"][:3])
        if r["violation"]:
            (viols if r["violation"].get("reproduced", 0) >= 2 else nonrepro).append(r["violation"])
    rc = 0
    known_hits = []
    new_viols = []
    seen = set()
    for v in viols:
        k = match_known(pid, v["case"], v["msg"])
        if k:
            if k["id"] not in seen:
                seen.add(k["id"])
                print("KNOWN-FINDING: property=%s %s" % (pid, k["what"]))
            known_hits.append(k["id"])
        else:
            new_viols.append(v)
    rdir = os.environ.get("VERIF_REPLAY_DIR", os.path.join(VERIF, "replays"))
    os.makedirs(rdir, exist_ok=True)
    for v in new_viols[:3]:
        path = os.path.join(rdir, "%s-%s.case" % (pid, digest(v["case"])))
        with open(path, "w") as f:
            f.write(v["case"] if v["case"].endswith("\n") else v["case"] + "\n")
            f.write("# verdict: %s\n" % v["msg"].replace("\n", " "))
        print("VIOLATION property=%s replay=%s" % (pid, path))
        print("  " + v["msg"][:600])
        rc = 1
    # a failure that did not reproduce is not reported as a violation (the engine is deterministic: it points at the engine or the machine, e.g. memory
    # pressure); the case is kept for triage
    for v in nonrepro[:3]:
        path = os.path.join(rdir, "%s-nonrepro-%s.case" % (pid, digest(v["case"])))
        with open(path, "w") as f:
            f.write(v["case"] if v["case"].endswith("\n") else v["case"] + "\n")
            f.write("# not reproduced (%d of 3): %s | %s\n" % (v.get("reproduced", 0), v["msg"].replace("\n", " ")[:600], json.dumps(v.get("res", {}))[:1500].replace("\n", " ")))
        print("note: a failure did not reproduce, kept for triage: %s" % path)
    ev = {
        "property_id": pid, "tier": tier, "seed": int(seed), "level": "exploration",
        "coverage": {
            "evaluations": evals, "distinct_nontrivial": len(nontriv), "rule": mod.RULE, "samples": samples,
            "examples": examples, "classes": classes, "status_counts": status, "inconclusive": incon,
            "nonrepro": len(nonrepro), "known_finding_hits": sorted(set(known_hits)),
            "wall_budget_hit": any(r["wall_budget_hit"] for r in results), "engine": os.path.basename(os.path.dirname(binary)),
            "generator_errors": errors[:5],
        },
        "assumptions": mod.ASSUMPTIONS, "wall_s": round(wall_s, 1), "violations": len(new_viols),
    }
    return rc, ev
