"""C20: uatomic operations.  Three generated-input searches share one verdict:
  E2  libFuzzer target fuzz/uat_fuzz.cc (sequential semantics, eight builds of the real macros against a plain-C reference) + an exhaustive boundary grid;
  E3a Hypothesis-generated multi-threaded hammer cases on the real machine (native/uat_conc.c, four builds): conservation oracles;
  E3b store-buffer litmus for the operations documented as full barriers, with a control that must exhibit the reordering."""
import hashlib, json, os, re, subprocess, sys, time
VERIF = os.path.dirname(os.path.dirname(os.path.abspath(__file__)))
sys.path.insert(0, os.path.join(VERIF, "fuzz")); sys.path.insert(0, os.path.join(VERIF, "native"))
import fuzzdrv

WIDTH = [1, 1, 2, 2, 4, 4, 8, 8]
TNAME = ["signed char", "unsigned char", "short", "unsigned short", "int", "unsigned int", "long", "unsigned long"]
MNAME = ["sum conservation (add/sub/inc/dec/add_return/sub_return)", "add_return(+1) results distinct", "xchg token conservation", "cmpxchg-loop increments", "and/or bit ownership", "test-and-set lock built from cmpxchg protecting a plain counter"]
RULE = ("Three campaigns. (E2, inputs) libFuzzer decodes bytes into (operand type in {signed,unsigned} x {1,2,4,8} bytes, one of 14 operations - set/read/load/store/xchg/cmpxchg/"
        "add_return/sub_return/add/sub/inc/dec/and/or -, an aligned position inside an 8-byte word surrounded by guard words, old value and operands from a sign/width boundary pool "
        "or raw, operands passed with the operand type, as (unsigned) long, as unsigned int or as int, old value present in memory beforehand or written by a plain C assignment right before the call) and compares the returned value (sign-/zero-extended per type), the stored value truncated to the "
        "width and every neighbouring byte with a plain-C reference, for eight builds of the real macros: {x86 asm, compiler builtins} x {C, C++} x {clang, gcc}; in addition the full "
        "grid type x operation x position x passing style x (old, a, b) in the 14-value boundary pool is enumerated exhaustively. (E3a, schedules on real hardware) Hypothesis generates "
        "2-8 pinned threads, an iteration count and a packing of 1-6 operands of mixed widths into one 8-byte word, each hammered by all threads with one discipline: sum conservation "
        "over add/sub/inc/dec/add_return/sub_return, all add_return(+1) results distinct and consecutive, xchg token conservation, cmpxchg-loop increments, and/or bit ownership, a test-and-set lock built from cmpxchg protecting a plain counter; "
        "guard words and unowned bytes must not change; four builds; plus a fixed matrix: every update operation (add, sub, inc, dec, add_return, sub_return, xchg, cmpxchg loop, or/and, cmpxchg lock) x every operand width x every build hammered alone by 4 threads (20000 iterations quick, 200000 thorough). (E3b) store-buffer litmus x=1; RMW(z); r=y || y=1; RMW(z'); r'=x for xchg, successful cmpxchg, add_return, "
        "sub_return (on long and on int operands, including add_return/sub_return of 0, a successful cmpxchg that stores the same value and an xchg of the value already present): r=r'=0 must never occur, while the control without the RMW must show it (else the litmus is reported inconclusive). Non-trivial: E2 - the operation wrapped, "
        "touched the sign bit or got an operand wider than the type (distinct decoded case); E3a - at least two operands shared the word, thread execution intervals overlapped and "
        "interference was observed (failed CAS, interleaved add_return results or foreign tokens) (distinct case text).")
ASSUMPTIONS = ["E3 runs on this machine's x86-64 cores: atomicity and barrier behaviour are observed, not proven; a clean run bounds nothing beyond the executions that happened",
               "the harness's own start barrier and bookkeeping use compiler __atomic builtins directly, never the macros under test",
               "operands are naturally aligned, as doc/uatomic-api.md requires", "no wall-clock time is used as an oracle"]


def gen_case(draw, st, tier):
    nth = draw(st.integers(2, 8))
    iters = draw(st.sampled_from([400, 2000, 8000] if tier == "quick" else [400, 2000, 8000, 40000]))
    locs, off = [], 0
    while off < 8:
        ws = [w for w in (1, 2, 4, 8) if off % w == 0 and off + w <= 8]
        w = draw(st.sampled_from(ws + [0]))       # 0: leave one byte unowned
        if w == 0:
            off += 1; continue
        t = {1: 0, 2: 2, 4: 4, 8: 6}[w] + draw(st.integers(0, 1))
        modes = [0, 1, 2, 3, 5] + ([4] if nth <= 8 * w else [])
        locs.append("%d:%d:%d" % (t, off, draw(st.sampled_from(modes))))
        off += w
        if len(locs) >= 6:
            break
    if not locs:
        locs = ["%d:0:%d" % (4 + draw(st.integers(0, 1)), draw(st.integers(0, 3)))]
    return "run %d %d %d %s" % (nth, iters, draw(st.integers(0, 1 << 30)), " ".join(locs))


def describe(case):
    a = case.split()
    out = ["%s threads x %s iterations, seed %s" % (a[1], a[2], a[3])]
    for l in a[4:]:
        t, o, m = map(int, l.split(":"))
        out.append("  %s at byte %d: %s" % (TNAME[t], o, MNAME[m]))
    return out


def run_native(binary, case, timeout=120):
    try:
        r = subprocess.run([binary] + case.split(), capture_output=True, text=True, timeout=timeout)
        return r.returncode, r.stdout + r.stderr
    except subprocess.TimeoutExpired:
        return -9, "timeout"


def e3_hammer(tier, seed, bins):
    import hypothesis
    from hypothesis import given, settings, strategies as st, HealthCheck, Phase
    nex = int(os.environ.get("VERIF_E3_EXAMPLES", {"quick": 200, "thorough": 2500}[tier]))
    stats = {"evaluations": 0, "nontrivial": set(), "classes": {}, "samples": [], "violations": [], "inconclusive": 0}
    last = {}

    def once(case):
        msgs = []
        for name, b in bins.items():
            rc, out = run_native(b, case)
            stats["evaluations"] += 1
            if rc == 1:
                msgs.append("[%s] %s" % (name, " | ".join(l for l in out.splitlines() if l.startswith("VIOLATION"))[:600]))
            elif rc != 0:
                stats["inconclusive"] += 1
            m = re.search(r"cas_fail=(\d+) foreign_tokens=(\d+) interleaved_results=(\d+) iters=(\d+) overlapping_pairs=(\d+)", out)
            if m and rc == 0:
                cf, ft, il, _, ov = map(int, m.groups())
                for k, v in (("cas_failures_seen", cf), ("foreign_tokens_seen", ft), ("interleaved_add_return", il), ("threads_overlapped", ov)):
                    if v:
                        stats["classes"][k] = stats["classes"].get(k, 0) + 1
                nloc = len(case.split()) - 4
                if nloc >= 2:
                    stats["classes"]["several_operands_in_one_word"] = stats["classes"].get("several_operands_in_one_word", 0) + 1
                if nloc >= 2 and ov and (cf or ft or il):
                    stats["nontrivial"].add(hashlib.blake2b((name + case).encode(), digest_size=8).hexdigest())
                    if len(stats["samples"]) < 3:
                        stats["samples"].append({"build": name, "case": describe(case), "observed": m.group(0)})
        return msgs

    @hypothesis.seed(seed * 7919 + 17)
    @settings(max_examples=nex, database=None, deadline=None, derandomize=False, report_multiple_bugs=False, phases=[Phase.generate, Phase.shrink],
              suppress_health_check=list(HealthCheck), verbosity=hypothesis.Verbosity.quiet)
    @given(st.data())
    def prop(data):
        case = gen_case(data.draw, st, tier)
        msgs = once(case)
        if msgs:
            last["case"] = case; last["msgs"] = msgs
            last.setdefault("all", []).append((case, msgs))
            raise AssertionError(msgs[0])
    try:
        prop()
    except AssertionError:
        pass
    except Exception as e:
        stats["classes"]["generator_error " + repr(e)[:80]] = 1
    if "case" in last:
        # a violation must reproduce (concurrency: 2 of 5 re-runs). Hypothesis' shrunk example (fewer threads / iterations) may fail too rarely to
        # reproduce; then fall back to the failing cases seen earlier, the first (unshrunk) one first.
        cands = [(last["case"], last["msgs"])] + last.get("all", [])[:1] + last.get("all", [])[-4:-1]
        seen, done = set(), False
        for case, msgs in cands:
            if case in seen or done:
                continue
            seen.add(case)
            rep = sum(1 for _ in range(5) if once(case))
            if rep >= 2:
                stats["violations"].append({"case": case, "msg": "; ".join(msgs)[:900], "reproduced": rep}); done = True
        if not done:
            stats["classes"]["nonrepro"] = stats["classes"].get("nonrepro", 0) + 1
    return stats


MATRIX_MODES = [(6, "add"), (7, "sub"), (8, "inc"), (9, "dec"), (10, "add_return (sum)"), (11, "sub_return (sum)"), (1, "add_return (distinct results)"),
                (2, "xchg"), (3, "cmpxchg loop"), (4, "or / and"), (5, "cmpxchg test-and-set lock")]


def e3_matrix(tier, seed, bins):
    """Every operation x every operand width x every build hammered alone by 4 threads (the generated cases above mix several operands and modes per
    word and therefore visit one particular operation/width pair only a few times)."""
    iters = {"quick": 20000, "thorough": 200000}[tier]
    stats = {"evaluations": 0, "violations": [], "cells": 0, "cells_with_contention": 0, "inconclusive": 0}
    for name, b in bins.items():
        for w, t in ((1, 0), (2, 2), (4, 4), (8, 6)):
            for mode, mname in MATRIX_MODES:
                it = min(iters, 60) if (mode == 1 and w == 1) else iters
                case = "run 4 %d %d %d:0:%d" % (it, seed * 31 + w + mode, t + (mode & 1), mode)
                rc, out = run_native(b, case)
                stats["evaluations"] += 1; stats["cells"] += 1
                m = re.search(r"overlapping_pairs=(\d+)", out)
                if m and int(m.group(1)):
                    stats["cells_with_contention"] += 1
                if rc == 1:
                    rep = 1 + sum(1 for _ in range(4) if run_native(b, case)[0] == 1)
                    stats["evaluations"] += 4
                    if rep >= 2:
                        msg = " | ".join(l for l in out.splitlines() if l.startswith("VIOLATION"))[:600]
                        stats["violations"].append({"case": case, "msg": "[%s] uatomic %s, %d-byte operand, 4 threads: %s" % (name, mname, w, msg), "reproduced": rep})
                elif rc != 0:
                    stats["inconclusive"] += 1
    return stats


def litmus(tier, bins):
    rounds = {"quick": 150000, "thorough": 3000000}[tier]
    res, viol, incon = [], [], 0
    for name, b in bins.items():
        rc, out = run_native(b, "litmus none %d" % rounds, 300)
        m = re.search(r"both_zero=(\d+)", out)
        control = int(m.group(1)) if m else -1
        row = {"build": name, "rounds": rounds, "control_both_zero": control}
        for kind in ("xchg", "cmpxchg", "add_return", "sub_return", "xchg32", "cmpxchg32", "add_return32", "sub_return32", "add_return_zero", "sub_return_zero", "add_return32_zero", "cmpxchg_same", "xchg_same",
                     "or_mb_after", "and_mb_after", "add_mb_after", "inc_mb_after", "dec_mb_after", "mb_before_or", "xchg_mo_seqcst", "cmpxchg_mo_seqcst", "add_return_mo_seqcst"):
            rc, out = run_native(b, "litmus %s %d" % (kind, rounds), 300)
            m = re.search(r"both_zero=(\d+)", out)
            n = int(m.group(1)) if m else -1
            row[kind] = n
            if n > 0:
                viol.append({"case": "litmus %s %d" % (kind, rounds), "msg": "[%s] store-buffer litmus around uatomic_%s: r0 == r1 == 0 observed %d times in %d rounds (control without the RMW: %d): the operation does not act as a full memory barrier" % (name, kind, n, rounds, control)})
        if control <= 0:
            incon += 1
            row["inconclusive"] = "the control did not exhibit store-buffer reordering on this machine; the litmus is uninformative for this build"
        res.append(row)
    return res, viol, incon


def run_c20(tier, seed):
    import fzbuild, nbuild, core
    t0 = time.time()
    bins = nbuild.build()
    runs = int(os.environ.get("VERIF_FUZZ_RUNS", {"quick": 200000, "thorough": 5000000}[tier]))
    res = fuzzdrv.campaign("uat_fuzz", tier, seed, runs, 64, extra_env={"VERIF_UAT_GRID": "1"}, work_tag="C20")
    grid = 0
    import glob
    for f in glob.glob(os.path.join(res["work"], "stats", "grid-*.txt")):
        grid = max(grid, int(open(f).read().strip() or 0))
    fails = fuzzdrv.confirm_failures(res)
    viol_lines = []
    for f in fails[:3]:
        path = fuzzdrv.save_replay("C20", f)
        viol_lines.append((path, f["msg"]))
    e3 = e3_hammer(tier, seed, bins)
    mx = e3_matrix(tier, seed, bins)
    lit, litviol, litincon = litmus(tier, bins)
    rdir = os.environ.get("VERIF_REPLAY_DIR", os.path.join(VERIF, "replays")); os.makedirs(rdir, exist_ok=True)
    for v in e3["violations"] + mx["violations"][:2] + litviol:
        path = os.path.join(rdir, "C20-%s.case" % hashlib.blake2b(v["case"].encode(), digest_size=8).hexdigest())
        open(path, "w").write(v["case"] + "\n# verdict: " + v["msg"] + "\n")
        viol_lines.append((path, v["msg"]))
    for path, msg in viol_lines[:4]:
        print("VIOLATION property=C20 replay=%s" % path); print("  " + msg[:600])
    ev = {"property_id": "C20", "tier": tier, "seed": int(seed), "level": "exploration",
          "coverage": {"evaluations": res["evaluations"] + grid + e3["evaluations"] + mx["evaluations"] + sum(23 for _ in lit),
                       "distinct_nontrivial": len(res["nontrivial"]) + len(e3["nontrivial"]), "rule": RULE,
                       "samples": res["samples"][:2] + e3["samples"][:2],
                       "e2_fuzz": {"evaluations": res["evaluations"], "distinct_nontrivial": len(res["nontrivial"]), "classes": res["classes"], "builds_compared": 8,
                                   "boundary_grid_cases_enumerated_exhaustively": grid, "fuzzer_processes": fuzzdrv.NPROC, "runs_per_process": runs},
                       "e3_hammer": {"evaluations": e3["evaluations"], "distinct_nontrivial": len(e3["nontrivial"]), "classes": e3["classes"], "inconclusive": e3["inconclusive"], "builds": sorted(bins)},
                       "e3_matrix": {k: mx[k] for k in ("evaluations", "cells", "cells_with_contention", "inconclusive")},
                       "e3_litmus": lit, "litmus_inconclusive_builds": litincon,
                       "engine": os.path.basename(os.path.dirname(res["binary"])) + " + " + os.path.basename(os.path.dirname(list(bins.values())[0]))},
          "assumptions": ASSUMPTIONS, "wall_s": round(time.time() - t0, 1), "violations": len(viol_lines)}
    fuzzdrv.cleanup(res)
    return (1 if viol_lines else 0), ev


ORDERING_KINDS = [("store_seqcst", "uatomic_store(p, v, CMM_SEQ_CST); load - the reader exit of urcu-mb and the quiescent-state/offline announcements of urcu-qsbr"),
                  ("store_relaxed_mb", "uatomic_store(p, v, CMM_RELAXED); cmm_smp_mb(); load"),
                  ("set_mb", "uatomic_set(p, v); cmm_smp_mb(); uatomic_read"),
                  ("store_seqcst_fence", "uatomic_store(p, v, CMM_SEQ_CST_FENCE); load")]


def primitive_litmus(pid, tier):
    """C01/C02 add-on: E1 explores the protocols with the compiler-builtin atomics (every access visible to the engine). The default build implements the
    same primitives in include/urcu/uatomic/{generic,x86}.h and include/urcu/arch/*.h; the store-buffering litmus (store-with-ordering; load || the same,
    mirrored) checks on this machine that they still order a store before a later load there, which is what 'announce, then test the futex word / scan the
    readers' needs. Returns (violations, rows, evaluations)."""
    import nbuild
    bins = nbuild.build()
    rounds = {"quick": 150000, "thorough": 3000000}[tier]
    rows, viol, n = [], [], 0
    for name, b in bins.items():
        rc, out = run_native(b, "litmus none %d" % rounds, 300); n += 1
        m = re.search(r"both_zero=(\d+)", out)
        row = {"build": name, "rounds": rounds, "control_both_zero": int(m.group(1)) if m else -1}
        for kind, what in ORDERING_KINDS:
            rc, out = run_native(b, "litmus %s %d" % (kind, rounds), 300); n += 1
            m = re.search(r"both_zero=(\d+)", out)
            k = int(m.group(1)) if m else -1
            row[kind] = k
            if k > 0:
                # confirm: 2 of 3 more runs
                rep = 1 + sum(1 for _ in range(3) if re.search(r"both_zero=[1-9]", run_native(b, "litmus %s %d" % (kind, rounds), 300)[1]))
                n += 3
                if rep >= 2:
                    viol.append({"case": "litmus %s %d" % (kind, rounds), "msg": "[%s build, real hardware] %s: both threads read 0 in %d of %d rounds (control without ordering: %d) - the store is not ordered before the later load, so 'announce, then test' can miss (lost wake-up / reader not seen)" % (name, what, k, rounds, row["control_both_zero"])})
        rows.append(row)
    return viol, rows, n


def replay_primitive(pid, path):
    import nbuild
    case = [l for l in open(path).read().splitlines() if l and not l.startswith("#")][0]
    bad = 0
    for name, b in nbuild.build().items():
        for _ in range(3):
            rc, out = run_native(b, case, 600)
            print("[%s] %s" % (name, out.strip()[-200:]))
            if re.search(r"both_zero=[1-9]", out):
                bad = 1
    if bad:
        print("VIOLATION property=%s replay=%s" % (pid, path)); return 1
    print("replay: property held on this case"); return 0


def replay_c20(path):
    import fzbuild, nbuild
    if path.endswith(".bin"):
        binary = fzbuild.build("uat_fuzz")
        env = dict(os.environ); env["ASAN_OPTIONS"] = "detect_leaks=0:handle_abort=1"; env["VERIF_UAT_GRID"] = "1"   # an empty artifact means the failure was found by the enumerated grid
        nf, log = fuzzdrv.replay(binary, path, env, times=1)
        print(log[-2000:])
        if nf:
            print("VIOLATION property=C20 replay=%s" % path); print("  " + fuzzdrv.oracle_msg(log)[:500]); return 1
        print("replay: property held on this input"); return 0
    case = [l for l in open(path).read().splitlines() if l and not l.startswith("#")][0]
    bins = nbuild.build()
    bad = 0
    for name, b in bins.items():
        for _ in range(5):
            rc, out = run_native(b, case, 600)
            print("[%s] %s" % (name, out.strip()[-400:]))
            if rc == 1 or (case.startswith("litmus") and not case.startswith("litmus none") and re.search(r"both_zero=[1-9]", out)):
                bad = 1
    if bad:
        print("VIOLATION property=C20 replay=%s" % path); return 1
    print("replay: property held on this case"); return 0
