"""Driver for the E2 (libFuzzer) checks.  A campaign = NPROC independent fuzzer processes with seeds derived from VERIF_SEED,
each started from (a) the committed seed corpus and (b) an empty corpus, `-runs` bounded (never time bounded).
Only crash-* artifacts written by an ORACLE/sanitizer abort are violations; each is re-run 3x stand-alone before it is reported."""
import glob, hashlib, json, os, re, shutil, subprocess, sys, time
from concurrent.futures import ThreadPoolExecutor

VERIF = os.path.dirname(os.path.dirname(os.path.abspath(__file__)))
sys.path.insert(0, os.path.join(VERIF, "fuzz"))
NPROC = int(os.environ.get("VERIF_WORKERS", "16"))


def oracle_msg(log):
    m = re.search(r"==ORACLE== (.*)", log)
    if m:
        return m.group(1).strip()
    m = re.search(r"(ERROR: AddressSanitizer: [^\n]*|runtime error: [^\n]*|Assertion [^\n]*failed[^\n]*|SUMMARY: [^\n]*)", log)
    return m.group(1).strip() if m else "crash without message"


def decoded_case(log):
    m = re.search(r"--- decoded case ---\n(.*?)--- end ---", log, re.S)
    return m.group(1) if m else ""


def run_one(binary, args, env, log_path, timeout):
    with open(log_path, "w") as lf:
        try:
            r = subprocess.run([binary] + args, stdout=lf, stderr=subprocess.STDOUT, env=env, timeout=timeout)
            return r.returncode
        except subprocess.TimeoutExpired:
            return -999


def replay(binary, path, env, times=3, timeout=120):
    """returns (n_failed, last_log)"""
    nf, log = 0, ""
    for _ in range(times):
        try:
            r = subprocess.run([binary, "-artifact_prefix=" + os.path.join(VERIF, "build", "replay-art-"), path], capture_output=True, text=True, env=env, timeout=timeout, errors="replace")
            log = r.stdout + r.stderr
            if r.returncode != 0:
                nf += 1
        except subprocess.TimeoutExpired:
            nf += 1
            log = "stand-alone replay exceeded %d s" % timeout
    return nf, log


def campaign(target, tier, seed, runs, max_len, extra_env=None, corpus_name=None, work_tag=""):
    import fzbuild as fbuild
    binary = fbuild.build(target)
    work = os.path.join(VERIF, "build", "fz-%s-%s%d" % (target, work_tag, os.getpid()))
    shutil.rmtree(work, ignore_errors=True)
    os.makedirs(work)
    stats_dir = os.path.join(work, "stats"); os.makedirs(stats_dir)
    env = dict(os.environ)
    env["VERIF_FUZZ_STATS"] = stats_dir
    env["ASAN_OPTIONS"] = "detect_leaks=0:abort_on_error=0:handle_abort=1:allocator_may_return_null=1"
    env["UBSAN_OPTIONS"] = "print_stacktrace=1"
    if extra_env:
        env.update(extra_env)
    seed_corpus = os.path.join(VERIF, "fuzz", "corpus", corpus_name or target)
    jobs = []
    for i in range(NPROC):
        cdir = os.path.join(work, "c%d" % i); os.makedirs(cdir)
        adir = os.path.join(work, "a%d" % i) + "/"; os.makedirs(adir)
        # even workers start from the committed seed corpus, odd ones from an empty corpus
        args = ["-runs=%d" % runs, "-seed=%d" % (seed * 1000 + i + 1), "-max_len=%d" % max_len, "-timeout=60", "-rss_limit_mb=3000",
                "-artifact_prefix=" + adir, "-print_final_stats=1", "-verbosity=0", cdir]
        if i % 2 == 0 and os.path.isdir(seed_corpus):
            args.append(seed_corpus)
        jobs.append((binary, args, env, os.path.join(work, "log%d.txt" % i), 3600 if tier == "thorough" else 900))
    t0 = time.time()
    with ThreadPoolExecutor(NPROC) as ex:
        rcs = list(ex.map(lambda j: run_one(*j), jobs))
    # collect
    res = {"evaluations": 0, "nontrivial": set(), "classes": {}, "samples": [], "failures": [], "noise": [], "wall_s": time.time() - t0,
           "binary": binary, "work": work, "env": env, "rcs": rcs}
    for f in glob.glob(os.path.join(stats_dir, "*.json")):
        try:
            s = json.load(open(f))
        except Exception:
            continue
        res["evaluations"] += s["evaluations"]
        res["nontrivial"].update(s["nontrivial"])
        for k, v in s["classes"].items():
            res["classes"][k] = res["classes"].get(k, 0) + v
        if len(res["samples"]) < 4:
            res["samples"].extend(x.split("\n") for x in s["samples"][:1])
    for i in range(NPROC):
        log = open(os.path.join(work, "log%d.txt" % i), errors="replace").read()
        arts = glob.glob(os.path.join(work, "a%d" % i, "*"))
        for a in arts:
            base = os.path.basename(a)
            if base.startswith("crash-"):
                res["failures"].append({"artifact": a, "msg": oracle_msg(log), "case": decoded_case(log)})
            else:
                res["noise"].append(base)   # slow-unit / timeout / oom are load noise, never violations (DESIGN.md §5)
    return res


def confirm_failures(res):
    """Stand-alone 3x re-run of one representative per distinct message (digits normalised); returns the confirmed ones."""
    reps, seen = [], set()
    for f in res["failures"]:
        key = re.sub(r"\d+", "N", f["msg"])[:80]
        if key in seen:
            f["reproduced"] = 3   # same message as a representative that is re-run
            continue
        seen.add(key); reps.append(f)
    reps = reps[:8]

    def one(f):
        nf, log = replay(res["binary"], f["artifact"], res["env"])
        f["reproduced"] = nf
        if nf >= 2:
            if "==ORACLE==" in log or "ERROR" in log:
                f["msg"] = oracle_msg(log)
            f["case"] = decoded_case(log) or f["case"]
        return f
    with ThreadPoolExecutor(8) as ex:
        reps = list(ex.map(one, reps))
    return [f for f in reps if f["reproduced"] >= 2]


def save_replay(pid, f):
    rdir = os.environ.get("VERIF_REPLAY_DIR", os.path.join(VERIF, "replays"))
    os.makedirs(rdir, exist_ok=True)
    h = hashlib.sha1(open(f["artifact"], "rb").read()).hexdigest()[:16]
    path = os.path.join(rdir, "%s-%s.bin" % (pid, h))
    shutil.copy(f["artifact"], path)
    with open(path + ".txt", "w") as t:
        t.write("# verdict: %s\n%s" % (f["msg"], f["case"]))
    return path


def cleanup(res):
    shutil.rmtree(res["work"], ignore_errors=True)
