"""Maps property ids to the machinery that decides them."""
import os, sys, json, subprocess, importlib
VERIF = os.path.dirname(os.path.dirname(os.path.abspath(__file__)))

E1 = {"C01": "c01", "C02": "c02", "C15": "c15", "C19": "c19", "C03": "c03", "C04": "c04", "C14": "c14"}


def write_evidence(pid, ev):
    d = os.environ.get("VERIF_EVIDENCE_DIR", os.path.join(VERIF, "evidence"))
    os.makedirs(d, exist_ok=True)
    with open(os.path.join(d, pid + ".json"), "w") as f:
        json.dump(ev, f, indent=1)
        f.write("\n")


def replay_e1(pid, path):
    import build as ebuild, core
    binary = ebuild.build()
    mod = importlib.import_module("props." + E1[pid])
    text = "".join(l for l in open(path) if not l.startswith("#"))
    subprocess.run([binary, "--trace", "-"], input=text, text=True)
    eng = core.Engine(binary)
    res = eng.run(text)
    v, _, cl = mod.judge(text, res)
    if v and hasattr(mod, "confirm"):
        v = mod.confirm(text, res, eng)
    eng.close()
    print(json.dumps(res))
    if v:
        print("VIOLATION property=%s replay=%s" % (pid, path))
        print("  " + v[:600])
        return 1
    print("replay: property held on this case")
    return 0


def run(pid, tier, seed, replay=None):
    if pid in E1:
        if replay:
            return replay_e1(pid, replay)
        import core
        rc, ev = core.run_property(E1[pid], tier, seed)
        write_evidence(pid, ev)
        print("%s %s: %d cases, %d distinct non-trivial, %d inconclusive, %.1fs, violations=%d" % (
            pid, tier, ev["coverage"]["evaluations"], ev["coverage"]["distinct_nontrivial"], ev["coverage"]["inconclusive"], ev["wall_s"], ev["violations"]))
        return rc
    print("unknown property", pid)
    return 2
