"""Maps property ids to the machinery that decides them."""
import os, sys, json, subprocess, importlib
VERIF = os.path.dirname(os.path.dirname(os.path.abspath(__file__)))

E1 = {"C16": "c16", "C17": "c17", "C13": "c13", "C18": "c18", "C10": "c10", "C11": "c11", "C12": "c12", "C01": "c01", "C02": "c02", "C15": "c15", "C19": "c19", "C03": "c03", "C04": "c04", "C14": "c14", "C05": "c05", "C06": "c06", "C07": "c07", "C09E1": "c09e1"}


def write_evidence(pid, ev):
    d = os.environ.get("VERIF_EVIDENCE_DIR", os.path.join(VERIF, "evidence"))
    os.makedirs(d, exist_ok=True)
    with open(os.path.join(d, pid + ".json"), "w") as f:
        json.dump(ev, f, indent=1)
        f.write("\n")


def replay_e1(pid, path):
    import build as ebuild, core
    binary = ebuild.build()
    mod = importlib.import_module("props." + E1[pid])
    text = "".join(l for l in open(path) if not l.startswith("#"))
    env = dict(os.environ)
    if "\ncfg early 1\n" in text:
        env["DSCHED_EARLY"] = "1"
    subprocess.run([binary, "--trace", "-"], input=text, text=True, env=env)
    eng = core.Engine(binary)
    res = eng.run(text)
    v, _, cl = mod.judge(text, res)
    if v and hasattr(mod, "confirm"):
        v = mod.confirm(text, res, eng)
    eng.close()
    print(json.dumps(res))
    if v:
        print("VIOLATION property=%s replay=%s" % (pid, path))
        print("  " + v[:600])
        return 1
    print("replay: property held on this case")
    return 0


def run(pid, tier, seed, replay=None):
    if pid in E1:
        if replay and pid in ("C01", "C02") and open(replay).read().startswith("litmus "):
            import e3checks
            return e3checks.replay_primitive(pid, replay)
        if replay:
            return replay_e1(pid, replay)
        import core
        rc, ev = core.run_property(E1[pid], tier, seed)
        if pid in ("C01", "C02"):
            # the same ordering primitives as implemented by the default (non-builtin) configuration, on real hardware
            import e3checks, hashlib
            pv, rows, n = e3checks.primitive_litmus(pid, tier)
            ev["coverage"]["native_ordering_litmus"] = {"evaluations": n, "rows": rows, "kinds": [k for k, _ in e3checks.ORDERING_KINDS]}
            ev["coverage"]["evaluations"] += n
            rdir = os.environ.get("VERIF_REPLAY_DIR", os.path.join(VERIF, "replays")); os.makedirs(rdir, exist_ok=True)
            for v in pv[:2]:
                path = os.path.join(rdir, "%s-%s.case" % (pid, hashlib.blake2b(v["case"].encode(), digest_size=8).hexdigest()))
                open(path, "w").write(v["case"] + "\n# verdict: " + v["msg"] + "\n")
                print("VIOLATION property=%s replay=%s" % (pid, path)); print("  " + v["msg"][:600])
                ev["violations"] += 1; rc = 1
        write_evidence(pid, ev)
        print("%s %s: %d cases, %d distinct non-trivial, %d inconclusive, %.1fs, violations=%d" % (
            pid, tier, ev["coverage"]["evaluations"], ev["coverage"]["distinct_nontrivial"], ev["coverage"]["inconclusive"], ev["wall_s"], ev["violations"]))
        return rc
    if pid in ("C08",):
        sys.path.insert(0, os.path.join(VERIF, "fuzz"))
        import e2checks
        if replay:
            return e2checks.replay_lfht(pid, replay)
        rc, ev = e2checks.run_lfht(pid, tier, seed)
        write_evidence(pid, ev)
        print("%s %s: %d cases, %d distinct non-trivial, %.1fs, violations=%d" % (pid, tier, ev["coverage"]["evaluations"], ev["coverage"]["distinct_nontrivial"], ev["wall_s"], ev["violations"]))
        return rc
    if pid == "C09":
        # composite: E2 libFuzzer campaign (all requested sizes, allocators, bounds) + E1 schedule exploration (resizes concurrent with operations)
        sys.path.insert(0, os.path.join(VERIF, "fuzz"))
        import e2checks, core
        if replay and replay.endswith(".bin"):
            return e2checks.replay_lfht(pid, replay)
        if replay:
            E1["C09"] = "c09e1"
            return replay_e1(pid, replay)
        rc2, ev2 = e2checks.run_lfht(pid, tier, seed)
        rc1, ev1 = core.run_property("c09e1", tier, seed)
        c1, c2 = ev1["coverage"], ev2["coverage"]
        ev = {"property_id": pid, "tier": tier, "seed": int(seed), "level": "exploration",
              "coverage": {"evaluations": c1["evaluations"] + c2["evaluations"], "distinct_nontrivial": c1["distinct_nontrivial"] + c2["distinct_nontrivial"],
                           "rule": "Two campaigns. E2 (inputs): " + c2["rule"] + " For C09 the E2 oracles are: every resize call returns (8 s watchdog, confirmed by 3 stand-alone re-runs), "
                                   "every stored node is found after each resize, the bucket count stays within [1, max_nr_buckets], the recording bucket allocator never sees an order above "
                                   "log2(max_nr_buckets), a double allocation, or a level freed while still published. E1 (schedules): " + c1["rule"],
                           "samples": c2["samples"][:2] + c1["samples"][:2], "e2": c2, "e1": c1},
              "assumptions": ev2["assumptions"] + ev1["assumptions"], "wall_s": round(ev1["wall_s"] + ev2["wall_s"], 1), "violations": ev1["violations"] + ev2["violations"]}
        write_evidence(pid, ev)
        print("%s %s: E2 %d cases (%d non-trivial) + E1 %d cases (%d non-trivial), %.1fs, violations=%d" % (pid, tier, c2["evaluations"], c2["distinct_nontrivial"], c1["evaluations"], c1["distinct_nontrivial"], ev["wall_s"], ev["violations"]))
        return max(rc1, rc2)
    if pid == "C20":
        import e3checks
        if replay:
            return e3checks.replay_c20(replay)
        rc, ev = e3checks.run_c20(tier, seed)
        write_evidence(pid, ev)
        c = ev["coverage"]
        print("%s %s: E2 %d fuzz cases + %d grid cases (8 builds), E3 %d hammer runs (%d non-trivial), litmus %s, %.1fs, violations=%d" % (
            pid, tier, c["e2_fuzz"]["evaluations"], c["e2_fuzz"]["boundary_grid_cases_enumerated_exhaustively"], c["e3_hammer"]["evaluations"], c["e3_hammer"]["distinct_nontrivial"],
            [(r["build"], r["control_both_zero"]) for r in c["e3_litmus"]], ev["wall_s"], ev["violations"]))
        return rc
    print("unknown property", pid)
    return 2
