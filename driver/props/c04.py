"""C04: rcu_barrier() returns only after all previously queued callbacks have run (DESIGN.md §6 C04)."""
from props import crcucommon as C, gpcommon as G

ID = "C04"
RULE = ("Same scenario family as C03 with the generator weighted towards rcu_barrier() calls from several threads (qsbr: online and offline "
        "callers), several helpers (default, per-thread, per-CPU) and helper creation/destruction in parallel; one program in five is a call_rcu-focused program and one a "
        "teardown program (main creates per-CPU helpers, the other threads call call_rcu(), main destroys them again); one case in eight contains a burst of 255-8193 callbacks "
        "from one thread (counting oracle: all of a burst queued before a barrier have run when it returns). Oracle: for every callback whose "
        "call_rcu() had returned before rcu_barrier() was entered (any thread), the callback function has returned when rcu_barrier() returns; "
        "rcu_barrier() terminates (deadlock/stuck/10x-budget). Non-trivial: a barrier was entered with >=1 such callback still pending. "
        " Up to 2 injected futex faults per case (k-th blocking FUTEX_WAIT returns spuriously or with EINTR). distinct = distinct case text.")
ASSUMPTIONS = G.E1_ASSUMPTIONS + ["bounded: <=4 threads + main, <=12 ops per thread"]
EXAMPLES = {"quick": 360, "thorough": 4000}
example = C.make_example(["barrier", "barrier", "barrier", "callrcu", "teardown"])
judge = C.make_judge(("rcu_barrier", "heap memory", "double free", "invalid pointer"), lambda text, res: G.flag(res, 3))
confirm = C.confirm
