"""Shared pieces for the properties decided on scenario gp_<flavor> (C01, C02, C15, C19)."""
from hypothesis import strategies as st
import gen

SCEN_FLAGS = {0: "gp_had_to_wait", 1: "concurrent_synchronize", 2: "nested_section", 3: "signal_inside_library", 4: "reg_during_gp",
              5: "handler_section_ran", 6: "bp_arena_grew", 8: "quiescent_thread_spun_until_grace_periods_returned", 9: "herd_of_threads_registered_at_once", 10: "section_nested_beyond_a_power_of_two_depth",
              46: "mapping_grown_in_place_across_a_page",
              48: "futex_sleep", 49: "futex_wake_hit", 50: "delayed_store", 51: "store_forwarded", 52: "membarrier", 53: "fault_hit",
              54: "signal_run", 55: "cas_fail", 56: "mutex_block", 57: "stale_read"}
E1_ASSUMPTIONS = [
    "engine E1: x86-TSO store-buffer simulation; compiler reorderings other than those of this gcc -O1 build are not explored",
    "library compiled with CONFIG_RCU_USE_ATOMIC_BUILTINS so that every atomic/barrier is visible to the engine; spin bounds RCU_QS_ACTIVE_ATTEMPTS=URCU_WAIT_ATTEMPTS=2, INIT_READER_COUNT=1 (hooks)",
]
TERMINATION_STATUSES = ("deadlock", "stuck", "budget", "solo_hang", "solo_block")


def classes_of(text, res):
    cl = [name for bit, name in SCEN_FLAGS.items() if res["flags"] >> bit & 1]
    cl.append("flavor_" + text.split("\n", 1)[0].split("_", 1)[1])
    if "\ncfg early 1\n" in text:
        cl.append("library_used_before_its_constructor")
    if "\ncfg inplace 1\n" in text:
        cl.append("range_after_library_mappings_kept_free")
    return cl


def flag(res, bit):
    return bool(res["flags"] >> bit & 1)


def confirm_hang(text, res, eng, factor=10):
    """A step-budget overrun is only reported as a hang if it persists with a 10x budget (DESIGN.md §2.6)."""
    if res["status"] != "budget":
        return "%s: %s" % (res["status"], res["msg"])
    import re
    m = re.findall(r"^budget (\d+)$", text, re.M)
    base = int(m[-1]) if m else 60000
    # 10x the budget; for cases that already carry a large budget (hundreds of resident nodes, callback bursts) at least 3x and 2 million steps, which
    # still fits the engine's wall-clock limit per case
    r2 = eng.run(text + "budget %d\n" % min(base * factor, max(3 * base, 2000000)))
    if r2["status"] in TERMINATION_STATUSES:
        return "hang (persists with a %dx step budget, or 2 million steps): %s: %s" % (factor, r2["status"], r2["msg"])
    return None
