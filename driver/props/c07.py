"""C07: hash table: removed node has one owner, unreachable after a grace period (DESIGN.md §6 C07)."""
from props import lfhtcommon as L, gpcommon as G

ID = "C07"
RULE = ("Three quarters of the programs are removal-race programs, one quarter resize-focused programs (explicit grow/shrink over several orders with concurrent readers, so bucket levels are released while traversals are positioned on them). Same scenario as C05 weighted towards several threads targeting the same node with lookup+del, del of a named node, lookup+replace and "
        "add_replace (1-2 keys); the unique winner waits a grace period (synchronize_rcu or call_rcu) and frees the node while other threads "
        "keep operating in the same bucket; explicit grow/shrink requests (multi-order shrinks free several bucket levels); final cds_lfht_destroy (must refuse a non-empty table). Oracle: "
        "per node at most one successful removal (others negative) via the linearizability specification and an ownership table; shadow heap: no "
        "access by any thread to a freed node, freed bucket array (order/chunk: arena; mmap: PROT_NONE fault) or destroyed table. Non-trivial: two "
        "removal attempts on one node overlapped, or a node was freed while other threads were still running operations. distinct = distinct case text.")
ASSUMPTIONS = G.E1_ASSUMPTIONS + ["bounded: <=4 threads, <=7 ops per thread"]
EXAMPLES = {"quick": 240, "thorough": 3000}
example = L.make_example(["owner", "owner", "owner", "resize"], faults=("pthread_create_eagain",))
judge = L.make_judge(lambda text, res: G.flag(res, 2) or (G.flag(res, 7) and G.flag(res, 0)))
confirm = L.confirm
