"""C06: hash table: unique adds never expose duplicate keys; replace is atomic (DESIGN.md §6 C06)."""
from props import lfhtcommon as L, gpcommon as G

ID = "C06"
RULE = ("Same scenario as C05 with keys only ever inserted by add_unique/add_replace/replace (1-2 keys, so that all threads meet on one key), "
        "concurrent lookup+del, lookups, duplicate walks and traversals, and power-of-two grow/shrink requests (1..16 buckets). Oracle: linearizability against the specification in which "
        "add_unique returns its own node iff the key is absent, else a node present during the call; add_replace/replace hand each replaced node "
        "to exactly one caller; a key that is only replaced is never reported absent; walks/traversals never return a node twice nor a node that "
        "was not present during the call. (A traversal is not a snapshot: returning node A, deleted meanwhile, and later node B with the same key, "
        "unique-added after A's removal, is allowed; two nodes with one key that coexisted are not - that is a linearizability violation of the "
        "add.) Non-trivial: two add_unique/add_replace calls on the same key overlapped, or a traversal overlapped an update. distinct = distinct case text.")
ASSUMPTIONS = G.E1_ASSUMPTIONS + ["bounded: <=4 threads, <=7 ops per thread, <=28 point operations per history"]
EXAMPLES = {"quick": 150, "thorough": 3000}
example = L.make_example("unique")
judge = L.make_judge(lambda text, res: G.flag(res, 8) or G.flag(res, 3))
confirm = L.confirm
