"""C09 (schedule-quantified part): resizes concurrent with updates/lookups, lazy resizes, partitioned resize, destroy with queued resizes."""
from props import lfhtcommon as L, gpcommon as G

ID = "C09"
RULE = ("E1 part: same scenario as C05 with AUTO_RESIZE tables (chain-length and counter-driven lazy resizes on the work-queue thread; "
        "hooks COUNT_COMMIT_ORDER=1, MIN_PARTITION_PER_THREAD_ORDER=1 so the multi-threaded partitioned path runs on 4-16 bucket tables), explicit "
        "cds_lfht_resize to arbitrary targets (0, non powers of two, > max, ULONG_MAX) from up to two threads concurrently with "
        "add/lookup/del/traversal/count, pthread_create EAGAIN injected on a partition helper, final destroy while lazy resizes may still be "
        "queued. Oracle: C05's linearizability and interval oracles (resident keys found by every concurrent lookup), shadow heap (bucket memory "
        "populated before publish, released only after readers left), termination (deadlock / no progress / 10x step budget), destroy returns 0 and "
        "nothing is touched afterwards. Non-trivial: an operation overlapped a resize. distinct = distinct case text.")
ASSUMPTIONS = G.E1_ASSUMPTIONS + ["bounded: <=4 threads, <=7 ops per thread, tables <=16 buckets (mmap: <=512)"]
EXAMPLES = {"quick": 300, "thorough": 5000}
example = L.make_example(["resize", "resize", "resize", "shrink"], faults=("pthread_create_eagain",))
judge = L.make_judge(lambda text, res: G.flag(res, 1))
confirm = L.confirm
