"""Shared pieces for the properties decided on scenario crcu_<flavor> (C03, C04, C14)."""
from hypothesis import strategies as st
import gen
from props import gpcommon as G

SCEN_FLAGS = {0: "callback_or_poll_had_to_wait_for_reader", 3: "barrier_with_pending_callbacks", 4: "poll_handle_taken_while_worker_active",
              5: "chained_callback", 6: "per_cpu_helpers", 7: "per_thread_helper", 9: "passive_drain", 10: "concurrent_barriers", 11: "poll_counter_fast_forwarded_near_wrap", 12: "burst_of_callbacks_in_one_batch", 13: "completed_handles_aged_by_2^31_or_more_grace_periods",
              48: "futex_sleep", 49: "wake_hit_sleeping_thread", 50: "delayed_store", 51: "store_forwarded", 52: "membarrier",
              55: "cas_fail", 56: "mutex_block", 57: "stale_read"}
FLAVORS = ["memb", "mb", "qsbr", "bp"]


def classes_of(text, res):
    cl = [name for bit, name in SCEN_FLAGS.items() if res["flags"] >> bit & 1]
    cl.append("flavor_" + text.split("\n", 1)[0].split("_", 1)[1])
    for op in ("rmthr", "rmcpu", "unsetcpu"):
        if (" " + op) in text:
            cl.append("helper_destroyed_" + op)
    return cl


def make_example(focus):
    def example(draw, tier):
        flavor = draw(st.sampled_from(FLAVORS))
        memb = draw(st.integers(0, 1)) if flavor in ("memb", "bp") else 1
        f = draw(st.sampled_from(focus)) if isinstance(focus, (list, tuple)) else focus
        prog, nops = gen.crcu_program(draw, tier, flavor, f)
        head = ["scen crcu_" + flavor, "cfg membarrier %d" % memb]
        if f == "poll":
            # history prefix: the polling grace-period counter starts where a long-running process would have it (URCU_VERIF fast-forward hook):
            # 0 untouched, 1 just below ULONG_MAX (ids wrap to 0 during the case), 2 just below LONG_MAX (signed wrap), 3 somewhere else
            pk = draw(st.sampled_from([0, 0, 1, 1, 2, 3]))
            wk = draw(st.sampled_from([0, 0, 1, 2, 3, 4, 5, 6, 7, 8, 9]))
            if wk:
                head.append("cfg pollwarp %d" % wk)   # after the threads have finished: every handle ages by 2^31-1 .. 2^62 polled grace periods and must stay completed
            if pk:
                head += ["cfg pollbase %d" % pk, "cfg polloff %d" % (draw(st.integers(0, 3)) if pk < 3 else draw(st.integers(1, 1 << 20)))]
        out = []
        big = [int(l.split()[2]) for l in prog if " burst " in l]
        tail = ["budget %d" % (60000 + 40 * sum(big))] if big else []   # a burst of n callbacks costs the helper a few dozen steps each
        for _ in range(gen.BATCH):
            sched = gen.schedule_lines(draw, tier, len(nops), nops, ndaemons=4, faults=("futex_eintr", "futex_spurious", "futex_wait_enosys"), fault_max=2)
            out.append("\n".join(head + prog + sched + tail) + "\n")
        return out
    return example


def make_judge(keywords, nontrivial):
    def judge(text, res):
        cl = classes_of(text, res)
        s = res["status"]
        if s == "viol":
            if any(k in res["msg"] for k in keywords):
                return "viol: " + res["msg"], False, cl
            cl.append("other_oracle_fired")
            return None, False, cl
        if s == "crash" or s in G.TERMINATION_STATUSES:
            return "%s: %s %s" % (s, res["msg"], res["stderr"][-300:] if s == "crash" else ""), False, cl
        return None, s == "ok" and nontrivial(text, res), cl
    return judge


def confirm(text, res, eng):
    if res["status"] in ("viol", "crash"):
        return "%s: %s %s" % (res["status"], res["msg"], res["stderr"][-300:])
    return G.confirm_hang(text, res, eng)
