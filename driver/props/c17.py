"""C17: progress: wait-free and lock-free operations never wait on other threads (DESIGN.md §6 C17)."""
from hypothesis import strategies as st
import gen
from props import gpcommon as G

ID = "C17"
RULE = ("Hypothesis generates an ordinary concurrent program on one of three scenario families - queues/stacks (wfcq, wfstack, lfstack, rculfstack, rculfqueue), the "
        "RCU hash table (with grow/shrink/lazy resizes in flight), read-side primitives (memb/mb/qsbr/bp with concurrent synchronize_rcu) - plus one extra thread "
        "that waits at a gate, a schedule, and a freeze step F. At step F every other thread is suspended wherever it is (mid-enqueue between tail exchange and "
        "link, after a logical delete and before its unlink, mid-resize, holding the grace-period lock ...), all store buffers are drained, and the extra thread "
        "runs 1-5 operations documented as wait-free, lock-free or non-blocking, alone. Oracle per solo operation: it returns, it never reaches a wait hint "
        "(caa_cpu_relax, poll, futex wait, contended mutex), it takes at most B of its own steps (B = 600 queues/stacks, 4000 hash table, 60 read lock/unlock), and a "
        "*_nonblocking call returns WOULDBLOCK only if an operation of a suspended thread on that container is in flight. Non-trivial: at the freeze some "
        "suspended thread was inside an operation on the same structure (or inside synchronize_rcu for the read-side family) and the solo thread completed at "
        "least one operation. Second phase (queues/stacks with *_nonblocking variants, half of the cases): the extra thread then resumes everybody, waits until every "
        "other thread has finished, and issues *_nonblocking calls only - none may return WOULDBLOCK. distinct = distinct case text.")
ASSUMPTIONS = G.E1_ASSUMPTIONS + ["step bounds are generous constants for the generated structure sizes (<=15 items, <=64 nodes, <=512 buckets); exceeding them is reported as unbounded waiting",
                                  "lock-free operations are run without interference only (solo run), which is what lock-freedom promises", "bounded: <=4 suspended threads, freeze step <= 400 (<= 1300 for the count-driven lazy-shrink programs)"]
EXAMPLES = {"quick": 250, "thorough": 5000}
CDS_FLAGS = {1: "wouldblock_returned", 8: "solo_op_completed", 9: "suspended_thread_mid_operation", 13: "thawed_then_quiescent_nonblocking_calls"}
LFHT_FLAGS = {9: "suspended_thread_mid_operation", 10: "suspended_mid_resize", 5: "lazy_resize", 11: "ballast_nodes_long_chain_or_full_table"}
GP_FLAGS = {7: "suspended_inside_synchronize_rcu"}


def example(draw, tier):
    fam = draw(st.sampled_from(["cds", "cds", "lfht", "lfht", "gp"]))
    frange = (5, 400)
    if fam == "cds":
        kind = draw(st.sampled_from(["wfcq", "wfcq", "wfs", "wfs", "lfs", "rculfs", "lfq"]))
        prog, nops, sync, solo = gen.cds_solo_program(draw, tier, kind)
        flavor = draw(st.sampled_from(["memb", "mb", "qsbr", "bp"])) if sync == 2 else "memb"
        head = ["scen cds_" + flavor, "cfg membarrier 1"]
        if draw(st.integers(0, 3)) == 0:
            head.append("cfg addrline %d" % draw(st.integers(1, 14)))   # one allocation of the case sits exactly on a 4 GiB address line
        nd = 1 if sync == 2 else 0
    elif fam == "lfht":
        flavor = draw(st.sampled_from(["memb", "mb", "qsbr", "bp"]))
        focus = draw(st.sampled_from(["lin", "resize", "owner", "shrink"]))
        prog, nops = gen.lfht_program(draw, tier, focus, flavor, solo=True)
        if focus == "shrink":
            frange = (300, 1300)   # the pre-population alone takes ~350 steps; the interesting states (first lazy shrink requested, worker behind) come later
        solo = len(nops) - 1
        head = ["scen lfht_" + flavor, "cfg membarrier 1"]
        if draw(st.integers(0, 3)) == 0:
            head.append("cfg addrline %d" % draw(st.integers(1, 14)))   # one allocation of the case sits exactly on a 4 GiB address line
        nd = 3
    else:
        flavor = draw(st.sampled_from(gen.GP_FLAVORS))
        prog, nops, solo = gen.gp_solo_program(draw, tier, flavor)
        head = ["scen gp_" + flavor, "cfg membarrier %d" % (draw(st.integers(0, 1)) if flavor in ("memb", "bp") else 1)]
        nd = 0
    out = []
    aim = []
    if fam == "cds" and kind in ("wfcq", "wfs") and draw(st.booleans()):
        # aim the freeze: one enqueue/push of a non-solo thread is stalled at one of its first scheduling points (between the tail exchange and the
        # link, among others) for longer than the freeze range, so that the freeze finds it there far more often than a uniform freeze step does
        cand = []
        per = {}
        for l in prog:
            if l.startswith("T") and not l.startswith("T%d " % solo):
                t = int(l[1:l.index(" ")]); i = per.get(t, 0); per[t] = i + 1
                if t > 0 and l.split()[1] == "enq":
                    cand.append((t, i))
        if cand:
            t, i = draw(st.sampled_from(cand))
            aim = ["stall %d %d %d %d" % (t, i, draw(st.integers(1, 8)), 600)]
    for _ in range(gen.BATCH):
        sched = gen.schedule_lines(draw, tier, len(nops), nops, ndaemons=nd) + aim
        f = draw(st.integers(*frange))
        out.append("\n".join(head + prog + sched + ["freeze %d %d" % (f, solo)] + gen.budget_lines(prog)) + "\n")
    return out


def family(text):
    return text.split("\n", 1)[0].split()[1].split("_")[0]


def judge(text, res):
    fam = family(text)
    fl = {"cds": CDS_FLAGS, "lfht": LFHT_FLAGS, "gp": GP_FLAGS}[fam]
    cl = ["family_" + fam] + [name for bit, name in fl.items() if res["flags"] >> bit & 1]
    gate = G.flag(res, 60)
    done = G.flag(res, 61) or (fam == "cds" and G.flag(res, 8))
    if gate:
        cl.append("gate_passed")
    if G.flag(res, 55):
        cl.append("cas_fail")
    s = res["status"]
    if s == "crash":
        return "crash: %s %s" % (res["msg"], res["stderr"][-300:]), False, cl
    if s == "viol" and ("progress:" in res["msg"] or gate):
        return "viol: " + res["msg"], False, cl
    if s in ("solo_hang", "solo_block") and gate:
        return "%s: an operation issued solo after the gate never returned: %s" % (s, res["msg"]), False, cl
    inflight = {"cds": 9, "lfht": 9, "gp": 7}[fam]
    return None, s == "ok" and gate and done and G.flag(res, inflight), cl


def confirm(text, res, eng):
    v, _, _ = judge(text, res)
    return v
