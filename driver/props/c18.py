"""C18: RCU lists: readers concurrent with an updater always see a consistent list (DESIGN.md §6 C18)."""
from hypothesis import strategies as st
import gen
from props import gpcommon as G

ID = "C18"
SCEN_FLAGS = {0: "traversal_overlapped_update", 1: "traversal_visited_removed_node", 2: "node_freed_during_run", 4: "nonempty_traversal",
              48: "futex_sleep", 50: "delayed_store", 56: "mutex_block", 57: "stale_read"}
RULE = ("Hypothesis generates, valid by construction, programs for 2-4 threads over one cds_list or cds_hlist: mutually excluded updates (cds_list_add_rcu, "
        "add_tail_rcu, del_rcu, replace_rcu / cds_hlist_add_head_rcu, del_rcu on generated positions; removed nodes freed after synchronize_rcu, by call_rcu, or "
        "at the end) and traversals inside read-side sections of a generated flavor with every _rcu iterator macro, after an optional pre-population; plus a "
        "schedule whose change points can fall between the individual plain pointer stores of an update primitive. Oracle per traversal, from the updater's "
        "logged call/return steps: terminates (<=4x nodes ever created visits), visited nodes are live user nodes with intact id/checksum, visits strictly "
        "increase in list order (no node twice), every node resident for the whole traversal is visited, a replacement is seen as old or new, nothing is "
        "visited that was not possibly present; final quiescent traversal equals the model; shadow heap for freed nodes. Non-trivial: an update's "
        "call/return interval overlapped a traversal. distinct = distinct case text.")
ASSUMPTIONS = G.E1_ASSUMPTIONS + ["bounded: <=4 threads + main, <=9 ops per thread, <=47 nodes",
                                  "the list primitives are static inline: they are compiled (instrumented) into the scenario from /repo/include"]
EXAMPLES = {"quick": 200, "thorough": 4000}
FLAVORS = ["memb", "mb", "qsbr", "bp"]


def example(draw, tier):
    flavor = draw(st.sampled_from(FLAVORS))
    prog, nops = gen.list_program(draw, tier)
    head = ["scen list_" + flavor, "cfg membarrier %d" % draw(st.integers(0, 1))]
    if draw(st.integers(0, 3)) == 0:
        head.append("cfg addrline %d" % draw(st.integers(1, 14)))   # one allocation of the case sits exactly on a 4 GiB address line
    out = []
    for _ in range(gen.BATCH):
        sched = gen.schedule_lines(draw, tier, len(nops), nops, ndaemons=1)
        out.append("\n".join(head + prog + sched) + "\n")
    return out


def judge(text, res):
    cl = [name for bit, name in SCEN_FLAGS.items() if res["flags"] >> bit & 1]
    cl.append("flavor_" + text.split("\n", 1)[0].split("_", 1)[1])
    cl.append("kind_hlist" if "cfg kind 1" in text else "kind_list")
    s = res["status"]
    if s in ("viol", "crash") or s in G.TERMINATION_STATUSES:
        return "%s: %s %s" % (s, res["msg"], res["stderr"][-300:] if s == "crash" else ""), False, cl
    return None, s == "ok" and G.flag(res, 0), cl


def confirm(text, res, eng):
    if res["status"] in ("viol", "crash"):
        return "%s: %s %s" % (res["status"], res["msg"], res["stderr"][-300:])
    return G.confirm_hang(text, res, eng)
