"""C13: defer_rcu(): calls run once, in order, exact arguments, after a grace period (DESIGN.md §6 C13)."""
from hypothesis import strategies as st
import gen
from props import gpcommon as G

ID = "C13"
SCEN_FLAGS = {0: "ring_wrapped_or_flushed", 1: "marker_or_low_bit_argument", 2: "odd_address_function", 3: "function_changed", 4: "background_reclaimer_ran_calls",
              5: "section_open_at_defer", 6: "re_registration", 7: "full_queue_flush_inside_defer_rcu", 8: "waited_for_reclaimer_without_api_call", 9: "barrier_ran_other_threads_calls",
              48: "futex_sleep", 49: "futex_wake_hit", 50: "delayed_store", 53: "fault_hit", 56: "mutex_block", 57: "stale_read"}
RULE = ("Hypothesis generates, valid by construction, programs for 1-3 threads (DEFER_QUEUE_SIZE = 8 through the hook): rcu_defer_register_thread, defer_rcu with a "
        "function drawn from four per-thread functions (two of them at odd addresses) and an argument bit pattern drawn from {0, 1, ~0, ~1 = the internal marker, odd "
        "values, aligned values, heap pointers, a repeat of the previous argument}, rcu_defer_barrier, rcu_defer_barrier_thread, unregister, register again, read-side "
        "sections (never around defer_rcu), and spin-waits without any API call that only the background reclaimer can satisfy; flavors memb/mb/qsbr/bp, membarrier "
        "on/off; plus a schedule and futex faults. Oracle: every invocation is the next queued (function, argument) pair of its thread (exactly once, in order, "
        "exact bits); every section open at the defer_rcu() call has ended when the call runs; barrier/unregister return only when the caller's earlier calls have "
        "run; nothing is left at the end; re-registration succeeds; termination by the engine's deadlock/no-progress/10x-budget rules. Non-trivial: the ring index wrapped "
        "(more than 8 slots used by one thread), or a marker-valued/low-bit argument or an odd-address function was encoded. distinct = distinct case text.")
ASSUMPTIONS = G.E1_ASSUMPTIONS + ["hook: DEFER_QUEUE_SIZE=8", "a function pointer equal to the marker value (~1) is not callable on x86-64 and is not generated",
                                  "the reclaimer's 100 ms poll is a yield on a virtual clock", "bounded: <=3 threads, <=14 ops per thread"]
EXAMPLES = {"quick": 500, "thorough": 6000}
FLAVORS = ["memb", "mb", "qsbr", "bp"]
FAULTS = ("futex_spurious", "futex_eintr", "futex_wait_enosys", "futex_wait_enosys_all")


def example(draw, tier):
    flavor = draw(st.sampled_from(FLAVORS))
    prog, nops = gen.defer_program(draw, tier)
    head = ["scen defer_" + flavor, "cfg membarrier %d" % (draw(st.integers(0, 1)) if flavor in ("memb", "bp") else 1)]
    out = []
    for _ in range(gen.BATCH):
        sched = gen.schedule_lines(draw, tier, len(nops), nops, ndaemons=1, faults=FAULTS, fault_max=1)
        out.append("\n".join(head + prog + sched) + "\n")
    return out


def judge(text, res):
    cl = [name for bit, name in SCEN_FLAGS.items() if res["flags"] >> bit & 1]
    cl.append("flavor_" + text.split("\n", 1)[0].split("_", 1)[1])
    s = res["status"]
    if s in ("viol", "crash") or s in G.TERMINATION_STATUSES:
        return "%s: %s %s" % (s, res["msg"], res["stderr"][-400:] if s == "crash" else ""), False, cl
    return None, s == "ok" and (G.flag(res, 0) or G.flag(res, 1) or G.flag(res, 2)), cl


def confirm(text, res, eng):
    if res["status"] in ("viol", "crash"):
        return "%s: %s %s" % (res["status"], res["msg"], res["stderr"][-400:])
    return G.confirm_hang(text, res, eng)
