"""Shared pieces for the properties decided on scenario cds_<flavor> (C10, C11, C12; C17 uses the same scenario in solo mode)."""
from hypothesis import strategies as st
import gen
from props import gpcommon as G

SCEN_FLAGS = {0: "removal_overlapped_insertion", 1: "wouldblock_returned", 2: "state_last_seen", 3: "splice_overlapped_other_op", 4: "linearizability_search_inconclusive",
              5: "node_memory_recycled", 6: "pop_all_overlapped_other_op", 7: "concurrent_removers", 10: "empty_result_seen", 11: "node_freed_during_run", 12: "crowd_of_66_or_more_items", 44: "one_thread_interfered_with_on_every_step",
              48: "futex_sleep", 50: "delayed_store", 55: "cas_fail", 56: "mutex_block", 57: "stale_read"}
KIND_NAMES = {v: k for k, v in gen.CDS_KINDS.items()}
RCU_FLAVORS = ["memb", "mb", "qsbr", "bp"]


def classes_of(text, res):
    cl = [name for bit, name in SCEN_FLAGS.items() if res["flags"] >> bit & 1]
    for l in text.split("\n")[:8]:
        if l.startswith("cfg kind "):
            cl.append("kind_" + KIND_NAMES[int(l.split()[2])])
        if l.startswith("cfg sync "):
            cl.append("sync_" + ("lock", "single_consumer", "rcu")[int(l.split()[2])])
        if l.startswith("scen "):
            cl.append("flavor_" + l.split("_", 1)[1])
    return cl


def crowd_example(draw, tier, kind):
    """Crowd case (one in eight, containers with an RCU scheme): the container is pre-filled with 66-130 items; one thread performs a single removal while
    another drains the container and the schedule makes the drainer complete one removal after every step of the first thread (harass); sometimes a third
    thread inserts or drains as well. Counting oracles (see the scenario), no linearizability search."""
    k = gen.CDS_KINDS[kind]
    n = draw(st.sampled_from([70, 130, 200, 390]))
    flavor = draw(st.sampled_from(RCU_FLAVORS))
    head = ["scen cds_" + flavor, "cfg membarrier %d" % draw(st.integers(0, 1)), "cfg kind %d" % k, "cfg sync 2", "cfg freemode 0", "cfg reuse 0", "cfg crowd %d" % n]
    t1 = ["cdeq"] * draw(st.integers(1, 2))
    t2 = ["drain %d" % draw(st.sampled_from([n - 2, n - 1, n, 65]))]
    prog = ["T1 " + o for o in t1] + ["T2 " + o for o in t2]
    nops = [0, len(t1), 1]
    if draw(st.booleans()):
        t3 = [draw(st.sampled_from(["cenq", "cenq", "cdeq", "drain 5"])) for _ in range(draw(st.integers(1, 4)))]
        prog += ["T3 " + o for o in t3]; nops.append(len(t3))
    out = []
    for _ in range(gen.BATCH):
        sched = gen.schedule_lines(draw, tier, len(nops), nops, ndaemons=1)
        if draw(st.integers(0, 3)) != 0:
            # interfere after every e-th step of the victim: e near the length of one iteration of its retry loop makes every iteration lose exactly once
            sched.append("harass 1 %d 2 %d" % (draw(st.integers(0, len(t1) - 1)), draw(st.integers(1, 9))))
        out.append("\n".join(head + prog + sched + ["budget %d" % (60000 + 600 * n)]) + "\n")
    return out


def make_example(kinds):
    def example(draw, tier):
        kind = draw(st.sampled_from(kinds))
        if kind in ("wfs", "lfs", "rculfs", "lfq") and draw(st.integers(0, 7)) == 0:
            return crowd_example(draw, tier, kind)
        prog, nops, sync = gen.cds_program(draw, tier, kind)
        uses_rcu = sync == 2
        flavor = draw(st.sampled_from(RCU_FLAVORS)) if uses_rcu else "memb"
        head = ["scen cds_" + flavor, "cfg membarrier %d" % (draw(st.integers(0, 1)) if uses_rcu else 1)]
        if draw(st.integers(0, 3)) == 0:
            head.append("cfg addrline %d" % draw(st.integers(1, 14)))   # one allocation of the case sits exactly on a 4 GiB address line
        out = []
        for _ in range(gen.BATCH):
            sched = gen.schedule_lines(draw, tier, len(nops), nops, ndaemons=1 if uses_rcu else 0)
            out.append("\n".join(head + prog + sched) + "\n")
        return out
    return example


def make_judge(nontrivial):
    def judge(text, res):
        cl = classes_of(text, res)
        s = res["status"]
        if s in ("viol", "crash") or s in G.TERMINATION_STATUSES:
            return "%s: %s %s" % (s, res["msg"], res["stderr"][-300:] if s == "crash" else ""), False, cl
        return None, s == "ok" and nontrivial(text, res), cl
    return judge


def confirm(text, res, eng):
    if res["status"] in ("viol", "crash"):
        return "%s: %s %s" % (res["status"], res["msg"], res["stderr"][-300:])
    return G.confirm_hang(text, res, eng)
