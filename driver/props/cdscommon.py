"""Shared pieces for the properties decided on scenario cds_<flavor> (C10, C11, C12; C17 uses the same scenario in solo mode)."""
from hypothesis import strategies as st
import gen
from props import gpcommon as G

SCEN_FLAGS = {0: "removal_overlapped_insertion", 1: "wouldblock_returned", 2: "state_last_seen", 3: "splice_overlapped_other_op", 4: "linearizability_search_inconclusive",
              5: "node_memory_recycled", 6: "pop_all_overlapped_other_op", 7: "concurrent_removers", 10: "empty_result_seen", 11: "node_freed_during_run",
              48: "futex_sleep", 50: "delayed_store", 55: "cas_fail", 56: "mutex_block", 57: "stale_read"}
KIND_NAMES = {v: k for k, v in gen.CDS_KINDS.items()}
RCU_FLAVORS = ["memb", "mb", "qsbr", "bp"]


def classes_of(text, res):
    cl = [name for bit, name in SCEN_FLAGS.items() if res["flags"] >> bit & 1]
    for l in text.split("\n")[:8]:
        if l.startswith("cfg kind "):
            cl.append("kind_" + KIND_NAMES[int(l.split()[2])])
        if l.startswith("cfg sync "):
            cl.append("sync_" + ("lock", "single_consumer", "rcu")[int(l.split()[2])])
        if l.startswith("scen "):
            cl.append("flavor_" + l.split("_", 1)[1])
    return cl


def make_example(kinds):
    def example(draw, tier):
        kind = draw(st.sampled_from(kinds))
        prog, nops, sync = gen.cds_program(draw, tier, kind)
        uses_rcu = sync == 2
        flavor = draw(st.sampled_from(RCU_FLAVORS)) if uses_rcu else "memb"
        head = ["scen cds_" + flavor, "cfg membarrier %d" % (draw(st.integers(0, 1)) if uses_rcu else 1)]
        if draw(st.integers(0, 3)) == 0:
            head.append("cfg addrline %d" % draw(st.integers(1, 14)))   # one allocation of the case sits exactly on a 4 GiB address line
        out = []
        for _ in range(gen.BATCH):
            sched = gen.schedule_lines(draw, tier, len(nops), nops, ndaemons=1 if uses_rcu else 0)
            out.append("\n".join(head + prog + sched) + "\n")
        return out
    return example


def make_judge(nontrivial):
    def judge(text, res):
        cl = classes_of(text, res)
        s = res["status"]
        if s in ("viol", "crash") or s in G.TERMINATION_STATUSES:
            return "%s: %s %s" % (s, res["msg"], res["stderr"][-300:] if s == "crash" else ""), False, cl
        return None, s == "ok" and nontrivial(text, res), cl
    return judge


def confirm(text, res, eng):
    if res["status"] in ("viol", "crash"):
        return "%s: %s %s" % (res["status"], res["msg"], res["stderr"][-300:])
    return G.confirm_hang(text, res, eng)
