"""C12: RCU lock-free queue is FIFO under concurrent enqueue and dequeue (DESIGN.md §6 C12)."""
from props import cdscommon as Q, gpcommon as G

ID = "C12"
RULE = ("Generated programs for 2-4 threads enqueueing and dequeueing on a cds_lfq_queue_rcu inside read-side sections of a generated flavor (memb/mb/qsbr/bp, the "
        "flavor's call_rcu passed to init), dequeued nodes kept, freed after synchronize_rcu, freed by call_rcu, or re-enqueued after a grace period; optional "
        "pre-population; plus a schedule. The main thread then calls cds_lfq_destroy_rcu, drains the queue, and destroys it again. Oracle: linearizability against "
        "the sequential FIFO specification (NULL only when empty at some instant, destroy returns 0 iff empty else -EPERM); every returned pointer is a live user "
        "node with an intact payload (never a dummy); shadow heap (dummies reclaimed only through call_rcu after a grace period; freed user nodes never touched). "
        "Non-trivial: a compare-and-swap failed (two of the three CAS sites raced) or a dequeue overlapped an enqueue or another dequeue. distinct = distinct case text.")
ASSUMPTIONS = G.E1_ASSUMPTIONS + ["bounded: <=4 threads + main, <=7 ops per thread, <=15 items, <=60 operations per history"]
EXAMPLES = {"quick": 200, "thorough": 4000}
example = Q.make_example(["lfq"])
judge = Q.make_judge(lambda text, res: G.flag(res, 55) or G.flag(res, 0) or G.flag(res, 7))
confirm = Q.confirm
