"""C16: fork() with the documented handlers leaves parent and child fully functional (DESIGN.md §6 C16)."""
from hypothesis import strategies as st
import gen
from props import gpcommon as G

ID = "C16"
SCEN_FLAGS = {0: "callbacks_pending_at_fork", 2: "per_cpu_helpers", 3: "per_thread_helper", 4: "hash_table_resize_worker_live", 5: "bp_reader_inside_section_at_fork",
              6: "child_completed", 7: "forked_twice", 9: "first_table_created_by_plain_thread_around_fork", 10: "child_created_own_table", 11: "child_section_vs_own_grace_period", 12: "bp_synchronize_rcu_in_flight_at_fork", 13: "second_thread_forks_with_its_own_signal_mask", 8: "some_callback_ran_before_fork", 48: "futex_sleep", 49: "futex_wake_hit", 56: "mutex_block", 58: "forked"}
RULE = ("Hypothesis generates the forking thread's program (call_rcu, additions to an AUTO_RESIZE hash table that queue lazy resizes, synchronize_rcu, rcu_barrier, read-side "
        "sections, one or two fork() calls bracketed by the documented handlers), the helper layout (default only / per-thread / per-CPU helpers on a simulated 2-CPU "
        "machine, RT or futex-woken), for bp up to three other threads that may be inside read-side sections or inside synchronize_rcu() at fork time and one of which may fork as well (urcu-bp handlers only, a signal mask of its own, which parent and child must get back), which steps the child performs "
        "(read-side section, synchronize_rcu, call_rcu, rcu_barrier, hash-table additions and destruction, a second-generation fork, creation of a resizable table of its own, a callback queued inside a read-side section that must not run before the section ends), optionally a plain (unregistered) application thread that creates the process's first resizable hash table around the time of the fork, the flavor, and a schedule that decides where every "
        "helper thread is when the handlers run. The forked child is a real process driven by the same engine (only the forking thread exists in it). Oracle: the "
        "child completes all its steps (deadlock / no-progress / 10x budget rules in the child process), every callback pending at the fork runs exactly once in "
        "the child and exactly once in the parent, callbacks that had run are not run again, every hash-table key is still found in both, the parent's threads all "
        "finish. Non-trivial: at least one callback was queued and had not run when fork() was called, or a bp reader was inside a section, or the resize worker "
        "had been started, and the child completed. distinct = distinct case text.")
ASSUMPTIONS = G.E1_ASSUMPTIONS + ["the child process inherits the engine: stores still buffered by other threads at fork time are not part of the child's memory image",
                                  "the fork point is fixed by the forking thread's program (right after the before-fork handlers); the schedule varies the state of every other thread",
                                  "bounded: <=12 operations in the forking thread, <=2 forks, <=3 bp reader threads"]
EXAMPLES = {"quick": 120, "thorough": 2500}
FLAVORS = ["memb", "mb", "qsbr", "bp", "bp"]


def example(draw, tier):
    flavor = draw(st.sampled_from(FLAVORS))
    prog, nops = gen.fork_program(draw, tier, flavor)
    head = ["scen fork_" + flavor, "cfg membarrier %d" % (draw(st.integers(0, 1)) if flavor in ("memb", "bp") else 1)]
    out = []
    for _ in range(gen.BATCH):
        sched = gen.schedule_lines(draw, tier, len(nops), nops, ndaemons=4)
        out.append("\n".join(head + prog + sched) + "\n")
    return out


def judge(text, res):
    cl = [name for bit, name in SCEN_FLAGS.items() if res["flags"] >> bit & 1]
    cl.append("flavor_" + text.split("\n", 1)[0].split("_", 1)[1])
    s = res["status"]
    if s in ("viol", "crash") or s in G.TERMINATION_STATUSES:
        return "%s: %s | child/parent stderr: %s" % (s, res["msg"], res["stderr"][-500:]), False, cl
    return None, s == "ok" and G.flag(res, 6) and (G.flag(res, 0) or G.flag(res, 5) or G.flag(res, 4)), cl


def confirm(text, res, eng):
    if res["status"] in ("viol", "crash"):
        return "%s: %s | %s" % (res["status"], res["msg"], res["stderr"][-500:])
    return G.confirm_hang(text, res, eng)
