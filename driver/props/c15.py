"""C15: reader registration is dynamic: threads come and go without breaking grace periods (DESIGN.md §6 C15)."""
from hypothesis import strategies as st
import gen
from props import gpcommon as G

ID = "C15"
RULE = ("Generated programs in which threads register/unregister (memb, mb, qsbr) repeatedly, or are created and exit in waves (T0 spawn/join "
        "program; bp: first read-side use registers, thread exit unregisters) with 2..6 threads against a bp registry whose initial capacity is 1 (chunks of 1, 2, 4 slots) "
        "(hook), with mremap in-place growth accepted or refused (fault), and signals aimed at threads during bp registration and into their exit path (the destructor that unregisters them); one bp case in four is a "
        "herd case: 9-20 extra threads make their first read-side call and stay alive (every fourth inside its section) while an updater and a reader run, so the registry passes 8, 16 "
        "and 32 slots, growing in place across page boundaries (cfg inplace: the engine's mmap/mremap wrappers keep the range after each library mapping free, an access past the grown "
        "mapping faults) or by new chunks. Oracles: the C01 "
        "interval/litmus/shadow-heap oracles and the C02 termination oracles on these scenarios; bp reader-slot address constant for the thread's "
        "life; number of distinct bp slots ever handed out <= peak number of live threads (slots are reused); self-deadlock of a signal handler on "
        "the registry lock is reported by the deadlock detector. Non-trivial: a (un)registration happened while a synchronize_rcu() was in flight, "
        "or the bp arena grew. distinct = distinct case text.")
ASSUMPTIONS = G.E1_ASSUMPTIONS + ["bounded: <=6 program threads (+ <=20 herd threads), <=10 ops per thread, <=2 waves"]
EXAMPLES = {"quick": 300, "thorough": 6000}


def example(draw, tier):
    flavor = draw(st.sampled_from(["memb", "mb", "qsbr", "bp", "bp"]))
    memb = draw(st.integers(0, 1)) if flavor in ("memb", "bp") else 1
    maxt = 6 if flavor == "bp" else (4 if tier == "quick" else 5)
    churn = flavor == "bp" and draw(st.integers(0, 2)) == 0
    herd = flavor == "bp" and not churn and draw(st.integers(0, 2)) == 0
    if herd:
        # herd: 9..20 extra threads registered at once (beyond the 8- and 16-slot capacities at which the chunk no longer fits its pages), every fourth
        # blocked inside its section, against an updater and a reader; the registry mapping grows in place (cfg inplace 1: the range after it is free)
        # or by new chunks (kernel's choice, or refused by fault)
        nh = draw(st.sampled_from([9, 12, 17, 17, 18, 20]))
        prog = ["T1 sync 0"] * draw(st.integers(1, 2)) + ["T1 lock", "T1 read 0", "T1 unlock"]
        rd = ["lock", "read 0"] + ["yield"] * draw(st.integers(0, 4)) + ["unlock", "lock", "read 0", "unlock"]
        prog += ["T2 " + o for o in rd]
        nops = [0, len(prog) - len(rd), len(rd)]
        nslots = 1
    elif churn:
        # slot churn: short-lived reader threads that stay alive for a generated number of yields, created and joined in waves, plus one updater;
        # with new-chunk growth forced (every in-place mremap refused) or accepted. Exercises slot reuse across chunks of capacity 1, 2, 4.
        n = draw(st.integers(3, 6))
        prog, nops = [], [0]
        for t in range(1, n + 1):
            ops = ["lock", "read 0"] + ["yield"] * draw(st.integers(0, 8)) + ["unlock"]
            if t == n and draw(st.booleans()):
                ops = ["sync 0"] + ops
            prog += ["T%d %s" % (t, o) for o in ops]; nops.append(len(ops))
        nslots = 1
    else:
        prog, nops, nslots = gen.gp_program(draw, tier, flavor, dynamic=True, max_threads=maxt, max_ops=6 if flavor == "bp" else None)
    n = len(nops) - 1
    # T0 program: waves of spawn/join (valid: every thread spawned once, joined once, after its spawn)
    t0 = []
    if herd:
        pre = draw(st.integers(0, 2))
        t0 = ["T0 spawn %d" % t for t in range(1, pre + 1)] + ["T0 herd %d" % nh] + ["T0 spawn %d" % t for t in range(pre + 1, 3)] + ["T0 unherd", "T0 join 1", "T0 join 2"]
        nops[0] = len(t0)
    elif churn or draw(st.booleans()):
        order = list(range(1, n + 1))
        live = []
        for t in order:
            while live and draw(st.integers(0, 2)) == 0:
                t0.append("T0 join %d" % live.pop(draw(st.integers(0, len(live) - 1))))
            t0.append("T0 spawn %d" % t); live.append(t)
        for t in live:
            t0.append("T0 join %d" % t)
        nops[0] = len(t0)
    head = ["scen gp_" + flavor, "cfg membarrier %d" % memb]
    if flavor == "bp" and draw(st.integers(0, 1 if herd else 3)) == 0:
        head.append("cfg inplace 1")
    if flavor in ("bp", "memb") and draw(st.integers(0, 3)) == 0:
        head.append("cfg early 1")   # first use precedes the library's constructor: bp initialises on first registration and tears down when the last thread leaves
    sigth = list(range(1, n + 1)) if flavor == "bp" else []
    out = []
    for _ in range(gen.BATCH):
        sched = gen.schedule_lines(draw, tier, len(nops), nops, faults=(("mremap_fail_all", "mremap_fail_all", "mremap_fail") if churn else ("mremap_fail", "mremap_fail_all")) if flavor == "bp" else (), fault_max=1,
                                   sig_threads=sigth if draw(st.integers(0, 2)) == 0 else (), sig_max=2)
        # bp: a signal aimed into a thread's exit path (the destructor that unregisters it and releases its slot)
        if flavor == "bp" and not herd and draw(st.integers(0, 3)) == 0:
            sched = sched + ["sigx %d %d" % (draw(st.integers(1, n)), draw(st.integers(1, 45)))]
        out.append("\n".join(head + t0 + prog + sched) + "\n")
    return out


def judge(text, res):
    cl = G.classes_of(text, res)
    s = res["status"]
    if s in ("viol", "crash") or s in G.TERMINATION_STATUSES:
        return "%s: %s %s" % (s, res["msg"], res["stderr"][-300:] if s == "crash" else ""), False, cl
    return None, s == "ok" and (G.flag(res, 4) or G.flag(res, 6)), cl


def confirm(text, res, eng):
    if res["status"] in ("viol", "crash"):
        return "%s: %s %s" % (res["status"], res["msg"], res["stderr"][-300:])
    return G.confirm_hang(text, res, eng)
