"""C03: call_rcu(): every callback runs exactly once, only after a full grace period (DESIGN.md §6 C03)."""
from props import crcucommon as C, gpcommon as G

ID = "C03"
RULE = ("Generated programs (1-4 threads + main, all four flavors) mixing read-side sections over RCU-published objects, call_rcu() of unpublished "
        "objects (callbacks free the object; a quarter re-enqueue a second-stage callback), per-thread helpers (create/set/clear/free, RT or "
        "futex-woken), per-CPU helpers on a simulated 2-CPU machine (create_all/free_all, set_cpu/unset+grace period+free), rcu_barrier and "
        "grace-period polls, with generated sched_getcpu values; one program in four (C04: five) is a teardown program (main creates per-CPU helpers, the other threads call call_rcu(), main destroys the helpers again); one case in eight contains a burst of 255-8193 callbacks from one thread; final drain either passive (yield until all callbacks ran, no API call) or by "
        "rcu_barrier(). Oracles: each callback invoked exactly once with the rcu_head it was registered with; no section begun before call_rcu() "
        "entry still open at invocation; shadow heap (object freed by its callback is never touched again; helper freed under an in-flight "
        "call_rcu); every callback has run at the end (else deadlock/stuck/hang). Non-trivial: a callback had to wait for a section open at its "
        "call_rcu(), or an enqueue woke a sleeping helper.  Up to 2 injected futex faults per case (k-th blocking FUTEX_WAIT returns spuriously or with EINTR). distinct = distinct case text.")
ASSUMPTIONS = G.E1_ASSUMPTIONS + ["bounded: <=4 threads + main, <=12 ops per thread, chain depth <=1, <=2 simulated CPUs"]
EXAMPLES = {"quick": 360, "thorough": 4000}
example = C.make_example(["callrcu", "callrcu", "callrcu", "teardown"])
judge = C.make_judge(("callback", "object", "heap", "free"), lambda text, res: G.flag(res, 0) or G.flag(res, 49))
confirm = C.confirm
