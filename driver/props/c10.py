"""C10: wait-free queues are FIFO: nothing lost, duplicated, reordered; splice moves all (DESIGN.md §6 C10)."""
from props import cdscommon as Q, gpcommon as G

ID = "C10"
RULE = ("Hypothesis generates, valid by construction, programs for 2-4 threads over one or two cds_wfcq queues (or one legacy cds_wfq): enqueue, every dequeue "
        "variant (convenience-locked, __blocking, __nonblocking, with_state), splice in both directions (locked, __blocking, __nonblocking), first/next iteration "
        "(blocking and nonblocking), empty(); consumers synchronised by the queue's lock or by the single-consumer rule; dequeued nodes kept, freed at once or "
        "re-enqueued; optional pre-population; plus a schedule (priorities, change points inside operations, held stores, noise). After the threads finish the "
        "main thread drains both queues. Oracle: Wing-Gong linearizability search of the whole call/return history against the sequential FIFO specification "
        "(enqueue's 'was non-empty', NULL only when empty, STATE_LAST iff the queue became empty, empty(), iteration = exact contents in order, splice = drain "
        "source then append to destination with the documented return codes); WOULDBLOCK only while an enqueue/splice-append on that queue is in flight; payload "
        "checksum of every returned node; shadow heap. Non-trivial: a dequeue, iteration or splice overlapped in time an enqueue or splice on the same queue by "
        "another thread. distinct = distinct case text.")
ASSUMPTIONS = G.E1_ASSUMPTIONS + ["bounded: <=4 threads + main, <=7 ops per thread, <=15 items, <=60 operations per history", "the exported (non-LGPL) functions of liburcu-cds are called; they instantiate the static inline headers"]
EXAMPLES = {"quick": 200, "thorough": 4000}
example = Q.make_example(["wfcq", "wfcq", "wfcq", "wfq"])
judge = Q.make_judge(lambda text, res: G.flag(res, 0) or G.flag(res, 3))
confirm = Q.confirm
