"""C19: read-side critical sections are safe inside signal handlers (memb, mb, bp) (DESIGN.md §6 C19)."""
from hypothesis import strategies as st
import gen
from props import gpcommon as G

ID = "C19"
RULE = ("Generated reader/updater programs (memb, mb, bp; threads that both read and call synchronize_rcu included) plus 1..3 real signals per "
        "case, each raised on a chosen thread at its k-th scheduling point, i.e. before any memory access of rcu_read_lock, rcu_read_unlock, "
        "synchronize_rcu, registration or application code; signals may nest (SA_NODEFER); a signal may also interrupt a blocking FUTEX_WAIT of the library (handler runs, wait returns EINTR). The handler performs rcu_read_lock, litmus and "
        "rcu_dereference reads, rcu_read_unlock. Oracles: rcu_read_ongoing() and the reader word identical before and after each handler; the "
        "C01 interval/litmus/shadow-heap oracles applied to handler sections and to interrupted sections; no deadlock/hang. Non-trivial: a "
        "handler section ran after the signal landed inside a library primitive. One bp/memb case in four runs before the library's own constructor (cfg early: "
        "the engine executes the case from an earlier constructor, so the first registration initialises the library - the documented early-registration path). distinct = distinct case text.")
ASSUMPTIONS = G.E1_ASSUMPTIONS + [
    "signals are raised at scheduling points (before each shared-memory access / fence / wrapped call of the interrupted thread), not between arbitrary machine instructions",
    "memb/mb: the handler uses RCU only while the interrupted thread is registered (documented precondition)",
]
EXAMPLES = {"quick": 300, "thorough": 6000}


def example(draw, tier):
    flavor = draw(st.sampled_from(["memb", "mb", "bp"]))
    memb = draw(st.integers(0, 1)) if flavor in ("memb", "bp") else 1
    prog, nops, nslots = gen.gp_program(draw, tier, flavor, dynamic=draw(st.booleans()))
    n = len(nops) - 1
    head = ["scen gp_" + flavor, "cfg membarrier %d" % memb, "cfg sigreads %d" % nslots]
    if flavor in ("bp", "memb") and draw(st.integers(0, 3)) == 0:
        head.append("cfg early 1")   # first use precedes the library's constructor (early registration path; bp: init/exit reference counting)
    out = []
    for _ in range(gen.BATCH):
        sched = gen.schedule_lines(draw, tier, len(nops), nops, sig_threads=list(range(1, n + 1)), sig_max=3,
                                   faults=("futex_eintr",), fault_max=2)
        # bp: a thread's exit path (thread-specific-data destructor: unregistration) is also "any instruction of that thread": aim a signal into it
        if flavor == "bp" and draw(st.integers(0, 2)) == 0:
            sched = sched + ["sigx %d %d" % (draw(st.integers(1, n)), draw(st.integers(1, 45)))]
        out.append("\n".join(head + prog + sched) + "\n")
    return out


def judge(text, res):
    cl = G.classes_of(text, res)
    s = res["status"]
    if s in ("viol", "crash") or s in G.TERMINATION_STATUSES:
        return "%s: %s %s" % (s, res["msg"], res["stderr"][-300:] if s == "crash" else ""), False, cl
    return None, s == "ok" and G.flag(res, 3) and G.flag(res, 5), cl


def confirm(text, res, eng):
    if res["status"] in ("viol", "crash"):
        return "%s: %s %s" % (res["status"], res["msg"], res["stderr"][-300:])
    return G.confirm_hang(text, res, eng)
