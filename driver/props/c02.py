"""C02: grace periods always complete once readers leave: no lost wake-up, no deadlock (DESIGN.md §6 C02)."""
from hypothesis import strategies as st
import gen
from props import gpcommon as G

ID = "C02"
RULE = ("Same generated reader/updater programs as C01 (all finite, every reader eventually leaves), plus quiescent spin-waits: a thread that is outside any section (qsbr: offline) spins in application code, making no RCU call, until every synchronize_rcu() that was in flight has returned - those grace periods need nothing more from it, so only a correct wake-up protocol lets them finish; all four flavors, membarrier on/off, "
        "plus generated faults: k-th FUTEX_WAIT returns spuriously / fails with EINTR, k-th FUTEX_WAIT fails with ENOSYS (the documented spurious case) or every futex() call fails with ENOSYS (system call unavailable) "
        "(compat fallback). Oracle: every thread finishes; the engine reports deadlock (no runnable thread with all store buffers drained), "
        "'stuck' (no memory write or wake-up by any thread for 6000 scheduling steps) or a step-budget overrun that persists with a 10x budget. "
        "Non-trivial: a synchronize_rcu() caller really blocked in FUTEX_WAIT (and was released), or an injected fault hit a futex call. distinct = distinct case text.")
ASSUMPTIONS = G.E1_ASSUMPTIONS + [
    "liveness is observed on finite generated programs under a fair scheduler (a yielding thread is demoted); 'eventually' = within the scenario",
    "bounded: <=5 threads, <=12 ops per thread, <=5 change points, <=3 faults per case",
]
EXAMPLES = {"quick": 300, "thorough": 6000}
FAULTS = ("futex_spurious", "futex_eintr", "futex_wait_enosys", "futex_enosys_all")


def example(draw, tier):
    flavor = draw(st.sampled_from(gen.GP_FLAVORS))
    memb = draw(st.integers(0, 1)) if flavor in ("memb", "bp") else 1
    prog, nops, nslots = gen.gp_program(draw, tier, flavor, dynamic=draw(st.booleans()), sync_weight=2, wait_ops=True)
    head = ["scen gp_" + flavor, "cfg membarrier %d" % memb]
    if flavor in ("bp", "memb") and draw(st.integers(0, 5)) == 0:
        head.append("cfg early 1")   # the case runs before the library's constructor (first registration initialises the library)
    out = []
    for _ in range(gen.BATCH):
        sched = gen.schedule_lines(draw, tier, len(nops), nops, faults=FAULTS, fault_max=2 if tier == "quick" else 3)
        out.append("\n".join(head + prog + sched) + "\n")
    return out


def judge(text, res):
    cl = G.classes_of(text, res)
    s = res["status"]
    if s in G.TERMINATION_STATUSES:
        return "%s: %s" % (s, res["msg"]), False, cl
    if s == "crash":
        return "crash: %s %s" % (res["msg"], res["stderr"][-300:]), False, cl
    if s == "viol":
        cl.append("other_oracle_fired")   # C01's subject
    return None, s == "ok" and (G.flag(res, 48) or G.flag(res, 53)), cl


def confirm(text, res, eng):
    if res["status"] == "crash":
        return "crash: %s %s" % (res["msg"], res["stderr"][-300:])
    return G.confirm_hang(text, res, eng)
