"""C11: stacks are LIFO: push/pop/pop_all lose nothing, duplicate nothing (DESIGN.md §6 C11)."""
from props import cdscommon as Q, gpcommon as G

ID = "C11"
RULE = ("Generated programs for 2-4 threads over a cds_wfs, cds_lfs or legacy cds_lfs_rcu stack: push, every pop variant (convenience-locked, __blocking, "
        "__nonblocking, with_state), pop_all (locked and __) followed by blocking or non-blocking iteration of the returned chain, empty(); poppers synchronised "
        "by the stack's lock, by the single-consumer rule, or by RCU (pop inside a read-side section of a generated flavor, popped nodes freed - synchronize_rcu "
        "or call_rcu - or re-pushed only after a grace period); plus a schedule. Final drain by the main thread. Oracle: linearizability against the sequential "
        "LIFO specification (push's 'was non-empty', NULL only when empty, STATE_LAST iff the stack became empty, empty(), pop_all = exact contents top first and "
        "leaves the stack empty); WOULDBLOCK only while another operation on that stack is in flight; payload checksum; shadow heap (recycled nodes). "
        "Non-trivial: a pop or pop_all overlapped a push, pop or pop_all of another thread on the same stack. distinct = distinct case text.")
ASSUMPTIONS = G.E1_ASSUMPTIONS + ["bounded: <=4 threads + main, <=7 ops per thread, <=15 items, <=60 operations per history", "the exported (non-LGPL) functions of liburcu-cds are called; they instantiate the static inline headers"]
EXAMPLES = {"quick": 200, "thorough": 4000}
example = Q.make_example(["wfs", "wfs", "lfs", "lfs", "rculfs"])
judge = Q.make_judge(lambda text, res: G.flag(res, 0) or G.flag(res, 6) or G.flag(res, 7))
confirm = Q.confirm
