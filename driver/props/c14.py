"""C14: grace-period polling never reports completion early and eventually reports it (DESIGN.md §6 C14)."""
from props import crcucommon as C, gpcommon as G

ID = "C14"
RULE = ("Same scenario family as C03 with the generator weighted towards start_poll_synchronize_rcu() at generated points (also while the poll "
        "worker callback is in flight; in half of the cases the polling grace-period counter is first fast-forwarded through the URCU_VERIF hook to 0-3 below ULONG_MAX or LONG_MAX or to an arbitrary value, i.e. the history has that many earlier polled grace periods and the ids wrap during the case), single polls and poll-until-true loops (outside sections), readers with sections. Oracles: at the first "
        "true result for a handle, no section that was open at that handle's start_poll entry is still open; a handle that returned true never "
        "returns false later; every poll-until-true loop terminates (10x-budget hang rule). Non-trivial: a handle was obtained while an earlier "
        "handle had been started (worker possibly active) and some section was open at a start_poll.  Up to 2 injected futex faults per case (k-th blocking FUTEX_WAIT returns spuriously or with EINTR). distinct = distinct case text.")
ASSUMPTIONS = G.E1_ASSUMPTIONS + ["bounded: <=4 threads + main, <=12 ops per thread, <=15 handles"]
EXAMPLES = {"quick": 200, "thorough": 4000}
example = C.make_example("poll")
judge = C.make_judge(("poll",), lambda text, res: G.flag(res, 4) and G.flag(res, 0))
confirm = C.confirm
