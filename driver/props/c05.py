"""C05: hash table: concurrent ops are linearizable; resident nodes are never missed (DESIGN.md §6 C05)."""
from props import lfhtcommon as L, gpcommon as G

ID = "C05"
RULE = ("Generated tables (1-8 initial buckets, max 4-16, mmap backend max 16 or 512; allocator order/chunk/mmap; flags 0..3; flavor memb/mb/qsbr/bp; "
        "hash identity / all-collide / high-bits-only / small-collide; 1-4 keys) and 2-4 threads each issuing add, add_unique, add_replace, "
        "lookup, lookup+del, del of a named node, lookup+replace, duplicate walk, traversal, count_nodes, power-of-two resizes (each table operation "
        "in its own read-side section), after an optional pre-population; one program in four is a count-driven lazy-shrink program (AUTO_RESIZE|ACCOUNTING, 8 buckets, 6-7 nodes, "
        "then mostly removals, one possible cpu, so the node count falls through two shrink thresholds while the resize worker may lag); removed nodes are reclaimed by their owner after a grace period. Oracle: "
        "Wing-Gong linearizability search of the recorded call/return history (<=28 point operations) against the multiset-per-key specification; "
        "interval predicates for walks/traversals/count (superset of definitely-present, subset of possibly-present, no node twice); final traversal "
        "equals the contents the history determines; shadow heap. Non-trivial: two operations of different threads overlapped in time and at least "
        "one was an update. distinct = distinct case text.")
ASSUMPTIONS = G.E1_ASSUMPTIONS + ["bounded: <=4 threads, <=7 ops per thread, <=28 point operations per history, <=64 nodes",
                                  "hooks: MIN_PARTITION_PER_THREAD_ORDER=1, COUNT_COMMIT_ORDER=1 so partitioned and counter-driven resizes occur on small tables"]
EXAMPLES = {"quick": 150, "thorough": 3000}
example = L.make_example(["lin", "lin", "lin", "shrink"], faults=("pthread_create_eagain",))
judge = L.make_judge(lambda text, res: G.flag(res, 0))
confirm = L.confirm
