"""Shared pieces for the properties decided on scenario lfht_<flavor> (C05, C06, C07, C09-E1)."""
from hypothesis import strategies as st
import gen
from props import gpcommon as G

SCEN_FLAGS = {0: "overlapping_ops_with_update", 1: "op_concurrent_with_resize", 2: "competing_removers_of_one_node", 3: "traversal_overlapped_update",
              5: "lazy_resize", 6: "linearizability_search_inconclusive", 7: "node_freed_during_run", 8: "racing_unique_adds_same_key", 11: "ballast_nodes_long_chain_or_full_table",
              48: "futex_sleep", 49: "wake_hit_sleeping_thread", 50: "delayed_store", 53: "fault_hit", 55: "cas_fail", 56: "mutex_block", 57: "stale_read"}
FLAVORS = ["memb", "mb", "qsbr", "bp"]


def classes_of(text, res):
    cl = [name for bit, name in SCEN_FLAGS.items() if res["flags"] >> bit & 1]
    cl.append("flavor_" + text.split("\n", 1)[0].split("_", 1)[1])
    for l in text.split("\n")[1:13]:
        if l.startswith("cfg mm "):
            cl.append("mm_" + ("order", "chunk", "mmap")[int(l.split()[2])])
        if l.startswith("cfg hash "):
            cl.append("hash_" + ("identity", "all_collide", "high_bits", "small_collide", "top_buckets")[int(l.split()[2])])
        if l.startswith("cfg flags ") and int(l.split()[2]) & 1:
            cl.append("auto_resize")
        if l.startswith("cfg ncpus "):
            cl.append("possible_cpus_" + l.split()[2])
    if text.startswith("scen lfht_qsbr"):
        cl.append("explicit_resize_excluded_known_finding_qsbr")
    return cl


def make_example(focus, faults=()):
    def example(draw, tier):
        flavor = draw(st.sampled_from(FLAVORS))
        f = draw(st.sampled_from(focus)) if isinstance(focus, (list, tuple)) else focus
        prog, nops = gen.lfht_program(draw, tier, f, flavor)
        head = ["scen lfht_" + flavor, "cfg membarrier %d" % draw(st.integers(0, 1))]
        if draw(st.integers(0, 3)) == 0:
            head.append("cfg addrline %d" % draw(st.integers(1, 14)))   # one allocation of the case sits exactly on a 4 GiB address line
        out = []
        for _ in range(gen.BATCH):
            sched = gen.schedule_lines(draw, tier, len(nops), nops, ndaemons=3, faults=faults, fault_max=1 if faults else 0)
            out.append("\n".join(head + prog + sched + gen.budget_lines(prog)) + "\n")
        return out
    return example


def make_judge(nontrivial, term=True):
    def judge(text, res):
        cl = classes_of(text, res)
        s = res["status"]
        if s in ("viol", "crash") or (term and s in G.TERMINATION_STATUSES):
            return "%s: %s %s" % (s, res["msg"], res["stderr"][-300:] if s == "crash" else ""), False, cl
        return None, s == "ok" and nontrivial(text, res), cl
    return judge


def confirm(text, res, eng):
    if res["status"] in ("viol", "crash"):
        return "%s: %s %s" % (res["status"], res["msg"], res["stderr"][-300:])
    return G.confirm_hang(text, res, eng)
