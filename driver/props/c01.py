"""C01: synchronize_rcu() waits for every pre-existing read-side critical section (DESIGN.md §6 C01)."""
from hypothesis import strategies as st
import gen

ID = "C01"
SCEN_FLAGS = {0: "gp_had_to_wait", 1: "concurrent_synchronize", 2: "nested_section", 4: "reg_during_gp", 10: "section_nested_beyond_a_power_of_two_depth",
              48: "futex_sleep", 49: "futex_wake_hit", 50: "delayed_store", 51: "store_forwarded", 52: "membarrier",
              55: "cas_fail", 56: "mutex_block", 57: "stale_read"}
RULE = ("Hypothesis generates, valid by construction, per-thread reader/updater programs (lock/unlock nesting<=3, "
        "litmus+pointer reads, synchronize_rcu, qsbr qs/offline/online, (un)registration) for a flavor in "
        "{memb,mb,qsbr,bp} x sys_membarrier {on,off}, plus a schedule (priorities, PCT change points addressed by "
        "thread/operation/offset, held stores (x86-TSO), random-walk noise seed). A case is non-trivial when some "
        "synchronize_rcu() call was entered while a read-side section that began earlier was still open (the grace "
        "period really had to wait). distinct = distinct case text.")
ASSUMPTIONS = [
    "engine E1: x86-TSO store-buffer simulation; compiler reorderings other than those of this gcc -O1 build are not explored",
    "library compiled with CONFIG_RCU_USE_ATOMIC_BUILTINS so that every atomic/barrier is visible to the engine; spin bounds RCU_QS_ACTIVE_ATTEMPTS=URCU_WAIT_ATTEMPTS=2 (hooks)",
    "bounded: <=5 threads, <=12 ops per thread, <=5 change points, <=4 explicitly held stores per case",
]
EXAMPLES = {"quick": 300, "thorough": 6000}


def example(draw, tier):
    flavor = draw(st.sampled_from(gen.GP_FLAVORS))
    memb = draw(st.integers(0, 1)) if flavor in ("memb", "bp") else 1
    prog, nops, nslots = gen.gp_program(draw, tier, flavor, dynamic=draw(st.booleans()))
    head = ["scen gp_" + flavor, "cfg membarrier %d" % memb]
    if flavor in ("bp", "memb") and draw(st.integers(0, 5)) == 0:
        head.append("cfg early 1")   # the case runs before the library's constructor (first registration initialises the library)
    out = []
    for _ in range(gen.BATCH):
        sched = gen.schedule_lines(draw, tier, len(nops), nops)
        out.append("\n".join(head + prog + sched) + "\n")
    return out


def classes_of(res):
    return [name for bit, name in SCEN_FLAGS.items() if res["flags"] >> bit & 1]


def judge(text, res):
    cl = classes_of(res) + ["flavor_" + text.split("\n", 1)[0].split("_")[1]]
    st_ = res["status"]
    if st_ in ("viol", "crash"):
        return "%s: %s %s" % (st_, res["msg"], res["stderr"][-300:]), False, cl
    # termination problems are C02's subject; here they are inconclusive
    return None, st_ == "ok" and bool(res["flags"] & 1), cl
