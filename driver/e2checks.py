"""E2 checks built on libFuzzer targets: C08 (sequential reference multimap) and the input-quantified part of C09."""
import json, os, re, sys, time
import fuzzdrv, core

VERIF = os.path.dirname(os.path.dirname(os.path.abspath(__file__)))
C09_PAT = re.compile(r"HANG|after resize|bucket allocator|buckets, outside|custom allocator: peak|bucket level|recording bucket allocator|alloc_bucket_table|free_bucket_table|max_nr_buckets|rculfhash-mm-|_do_cds_lfht_(grow|shrink|resize)|init_table|fini_table")

C09_ONLY = re.compile(r"HANG|buckets, outside|custom allocator: peak|recording bucket allocator")   # everything else (crashes, assertion failures, content mismatches) also violates the reference-multimap property

LFHT_RULE = ("libFuzzer (coverage-guided, ASan+UBSan, asserts on) mutates bytes which a structural decoder turns into a table configuration "
             "(init/min/max orders 0..10 incl. max<init and min>init, one parameter optionally not a power of two, flags 0..3, allocator in "
             "{default, order, chunk, mmap, order wrapped by a recording bucket allocator}, default or recording cds_lfht_alloc, 8 keys with "
             "hashes from an adversarial pool: 0, ~0, equal hashes, hashes differing only in high bits, small integers, random) and <=64 "
             "operations (add, add_unique, add_replace, lookup, replace via fresh or saved iterator, del of stored or already-removed nodes, "
             "duplicate walk, full check, resize to pool/power-of-two targets, destroy of a non-empty table); a C++ reference multimap is compared "
             "after every step. Non-trivial: the sequence meets a hash collision between different keys and contains a resize or a duplicate key; "
             "distinct = distinct decoded case (FNV-1a of its text).")
LFHT_ASSUMPTIONS = [
    "single application thread; AUTO_RESIZE tables are synchronised with the resize worker after every operation (white-box read of resize_initiated) so runs are deterministic",
    "library objects built from /repo with clang -O1 -fsanitize=fuzzer-no-link,address,undefined -fno-sanitize=alignment (x86 asm uatomic, production configuration) plus hooks MIN_PARTITION_PER_THREAD_ORDER=5, COUNT_COMMIT_ORDER=2",
    "-fno-sanitize=alignment: UBSan's alignment check fires on the CDS_WFS_END sentinel arithmetic of wfstack.h on the unchanged tree (not a listed property)",
    "campaign bounded by -runs, never by time; only crash-* artifacts that reproduce stand-alone are violations",
]


def run_lfht(pid, tier, seed):
    t0 = time.time()
    runs = {"quick": 15000, "thorough": 400000}[tier]
    runs = int(os.environ.get("VERIF_FUZZ_RUNS", runs))
    excl = []
    known = core.load_known()
    for f in known.get("findings", []):
        if f.get("engine") == "lfht_fuzz" and f.get("exclude"):
            excl.append(f["exclude"])
    attempts = 0
    rc = 0
    reported, other = [], []
    while True:
        env = {"VERIF_EXCLUDE": ",".join(excl)} if excl else {}
        res = fuzzdrv.campaign("lfht_fuzz", tier, seed, runs, 320, extra_env=env, work_tag=pid)
        fails = fuzzdrv.confirm_failures(res)
        # content mismatches after a resize violate both properties (the reference multimap of C08, "resize preserves contents" of C09) and are reported by
        # both checks; hangs, bucket-count bounds and bucket-allocator protocol failures are C09's alone
        if pid == "C09":
            mine = [f for f in fails if C09_PAT.search(f["msg"])]
        else:
            mine = [f for f in fails if not C09_ONLY.search(f["msg"])]
        theirs = [f for f in fails if f not in mine]
        attempts += 1
        retry = False
        for f in mine:
            k = core.match_known(pid, f["case"], f["msg"])
            if k:
                print("KNOWN-FINDING: property=%s %s" % (pid, k["what"]))
                if k.get("exclude") and k["exclude"] not in excl:
                    excl.append(k["exclude"]); retry = True
            else:
                reported.append(f)
        for f in theirs:
            other.append(f["msg"])
            # a failure that belongs to the sister property stops the fuzzer early: exclude its input class and search on
            if "HANG" in f["msg"] and "nonpow2_resize" not in excl:
                excl.append("nonpow2_resize"); retry = True
        if reported or not retry or attempts >= 3:
            break
        fuzzdrv.cleanup(res)
    for f in reported[:3]:
        path = fuzzdrv.save_replay(pid, f)
        print("VIOLATION property=%s replay=%s" % (pid, path))
        print("  " + f["msg"][:500])
        rc = 1
    ev = {"property_id": pid, "tier": tier, "seed": int(seed), "level": "exploration",
          "coverage": {"evaluations": res["evaluations"], "distinct_nontrivial": len(res["nontrivial"]), "rule": LFHT_RULE,
                       "samples": res["samples"][:4], "classes": res["classes"], "fuzzer_processes": fuzzdrv.NPROC, "runs_per_process": runs,
                       "excluded_input_classes": excl, "load_noise_artifacts": sorted(set(res["noise"]))[:5],
                       "other_property_oracle_fired": other[:3], "nonrepro": len([f for f in res["failures"] if f.get("reproduced", 0) < 2]),
                       "engine": os.path.basename(os.path.dirname(res["binary"]))},
          "assumptions": LFHT_ASSUMPTIONS, "wall_s": round(time.time() - t0, 1), "violations": len(reported)}
    fuzzdrv.cleanup(res)
    return rc, ev


def replay_lfht(pid, path):
    import fzbuild as fbuild
    binary = fbuild.build("lfht_fuzz")
    env = dict(os.environ); env["ASAN_OPTIONS"] = "detect_leaks=0:handle_abort=1"
    nf, log = fuzzdrv.replay(binary, path, env, times=1)
    print(log[-3000:])
    if nf:
        print("VIOLATION property=%s replay=%s" % (pid, path)); print("  " + fuzzdrv.oracle_msg(log)[:500]); return 1
    print("replay: property held on this input"); return 0
