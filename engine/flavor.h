/* per-flavor compilation of scenarios: -DFL_MEMB | -DFL_MB | -DFL_QSBR | -DFL_BP   (marker: DS_PER_FLAVOR) */
#ifndef DS_FLAVOR_H
#define DS_FLAVOR_H
#if defined(FL_MEMB)
# include <urcu/urcu-memb.h>
# define F(x) urcu_memb_##x
# define FLNAME "memb"
extern int urcu_memb_has_sys_membarrier;
# define FL_SET_MEMBARRIER(v) (urcu_memb_has_sys_membarrier = (v))
# define FL_READER_CTR() (URCU_TLS(urcu_memb_reader).ctr)
# define FL_NEST_MASK URCU_GP_CTR_NEST_MASK
#elif defined(FL_MB)
# include <urcu/urcu-mb.h>
# define F(x) urcu_mb_##x
# define FLNAME "mb"
# define FL_SET_MEMBARRIER(v) ((void)(v))
# define FL_READER_CTR() (URCU_TLS(urcu_mb_reader).ctr)
# define FL_NEST_MASK URCU_GP_CTR_NEST_MASK
#elif defined(FL_QSBR)
# include <urcu/urcu-qsbr.h>
# define F(x) urcu_qsbr_##x
# define FLNAME "qsbr"
# define FL_SET_MEMBARRIER(v) ((void)(v))
# define FL_READER_CTR() (URCU_TLS(urcu_qsbr_reader).ctr)
# define FL_NEST_MASK 0UL
#elif defined(FL_BP)
# include <urcu/urcu-bp.h>
# define F(x) urcu_bp_##x
# define FLNAME "bp"
extern int urcu_bp_has_sys_membarrier;
# define FL_SET_MEMBARRIER(v) (urcu_bp_has_sys_membarrier = (v))
# define FL_READER_CTR() (URCU_TLS(urcu_bp_reader) ? URCU_TLS(urcu_bp_reader)->ctr : 0)
# define FL_NEST_MASK URCU_BP_GP_CTR_NEST_MASK
#else
# error "flavor not selected"
#endif
#include <urcu/uatomic.h>
#include <urcu/pointer.h>
#define FLSCEN(base) base "_" FLNAME
#endif
