/*
 * Scenario "crcu_<flavor>": call_rcu, rcu_barrier, helper management, grace-period polling.
 * Serves C03, C04, C14.   DS_PER_FLAVOR
 *
 * Every program thread (T0 = main included) registers as a reader at start and unregisters at the end
 * (qsbr: goes offline right after registering; "lock" = thread_online, "unlock" = thread_offline).
 * Operations:
 *   lock | unlock            read-side section (nesting for memb/mb/bp)
 *   readobj k                rcu_dereference(OBJ[k]) and read its payload (inside a section)
 *   callrcu k chain          unpublish OBJ[k] (xchg with a fresh object) and call_rcu() the old one;
 *                            chain=1: the callback re-enqueues a second-stage callback which frees
 *   barrier                  rcu_barrier() (outside sections; qsbr: online or offline)
 *   mkthr rt | rmthr         per-thread helper: create_call_rcu_data+set_thread_call_rcu_data /
 *                            set_thread_call_rcu_data(NULL)+call_rcu_data_free
 *   spoll h | poll h | pollwait h     start_poll / one poll / poll until true (yielding)
 *   yield
 *   T0 only: mkcpu rt | rmcpu | setcpu c rt | unsetcpu c
 * cfg: drain (0 passive wait for all callbacks, 1 rcu_barrier x2), membarrier, cpu<i>
 */
#define _GNU_SOURCE
#include <limits.h>
#include <pthread.h>
#include <stdio.h>
#include <stdlib.h>
#include <string.h>
#include <unistd.h>
#include "flavor.h"
#include <urcu/call-rcu.h>
#include "ds.h"

#define NS __attribute__((no_sanitize_thread, noinline))
#define MAXK 4
#define MAXID 256
#define MAXH 16

enum { EV_SEC_BEGIN = 1, EV_SEC_END, EV_CALL_ENT, EV_CALL_RET, EV_CB_RUN, EV_CB_DONE, EV_BAR_ENT, EV_BAR_RET, EV_POLL_START, EV_POLL_TRUE };
enum { CF_CB_WAITED = 0, CF_HELPER_ASLEEP_AT_ENQ = 1, CF_HELPER_FREED_WITH_CBS = 2, CF_BARRIER_PENDING = 3, CF_POLL_WHILE_ACTIVE = 4,
       CF_CHAIN = 5, CF_PERCPU = 6, CF_PERTHREAD = 7, CF_BARRIER_MULTI = 8, CF_PASSIVE_DRAIN = 9, CF_BARRIER_CONCURRENT = 10, CF_POLL_WRAP = 11, CF_BURST = 12, CF_POLL_AGED = 13 };

struct obj { struct rcu_head head, head2; int id, chain; unsigned long val, chk; };

static struct obj *OBJ[MAXK];

/* bookkeeping (uninstrumented) */
static int next_id = 1;
static struct rcu_head *reg_head[MAXID];
static int cb_count[MAXID], cb_done[MAXID], call_ret[MAXID];
static unsigned long call_ent_step[MAXID];
static int sec_ctr;
static int outstanding;		/* callbacks enqueued and not yet finished */
static int barriers_active;
struct tstate { int depth; int secid[8]; };
static struct tstate ts[128];
static struct urcu_gp_poll_state handles[MAXH];
static int h_valid[MAXH], h_true[MAXH];
static unsigned long h_start[MAXH];
static int polls_started;

static NS struct tstate *me_ts(void) { return &ts[ds_self()]; }
static NS void sec_begin(void)
{
	struct tstate *t = me_ts();
	int id = ++sec_ctr;
	if (t->depth < 8) t->secid[t->depth] = id;
	t->depth++;
	ds_ev(EV_SEC_BEGIN, id, t->depth);
}
static NS void sec_end(void)
{
	struct tstate *t = me_ts();
	t->depth--;
	ds_ev(EV_SEC_END, t->depth < 8 ? t->secid[t->depth] : 0, t->depth + 1);
}
static NS int my_depth(void) { return me_ts()->depth; }
static NS int new_id(struct rcu_head *h) { int id = next_id++; if (id >= MAXID) ds_bad_case("too many callbacks"); reg_head[id] = h; return id; }
static NS void call_ent(int id) { call_ent_step[id] = ds_now(); outstanding++; ds_ev(EV_CALL_ENT, id, 0); }
static NS void call_retd(int id) { call_ret[id] = 1; ds_ev(EV_CALL_RET, id, 0); }
static NS void cb_run(int id, struct rcu_head *h)
{
	if (id <= 0 || id >= MAXID || !reg_head[id]) ds_fail("callback invoked with an rcu_head that was never registered (id %d)", id);
	if (reg_head[id] != h) ds_fail("callback %d invoked with rcu_head %p, registered with %p", id, (void *)h, (void *)reg_head[id]);
	if (++cb_count[id] > 1) ds_fail("callback %d invoked %d times", id, cb_count[id]);
	ds_ev(EV_CB_RUN, id, 0);
}
static NS void cb_finish(int id) { cb_done[id] = 1; outstanding--; ds_ev(EV_CB_DONE, id, 0); }
static NS int get_outstanding(void) { return outstanding; }

static void cb2(struct rcu_head *h)
{
	struct obj *o = caa_container_of(h, struct obj, head2);
	int id = o->id + 100;
	cb_run(id, h);
	uatomic_store(&o->val, 0xdeadul); uatomic_store(&o->chk, 0xdeadul);
	free(o);
	cb_finish(id);
}
static NS int new_id2(struct obj *o) { int id = o->id + 100; if (id >= MAXID) ds_bad_case("id overflow"); reg_head[id] = &o->head2; return id; }
static void cb1(struct rcu_head *h)
{
	struct obj *o = caa_container_of(h, struct obj, head);
	int id = o->id;
	cb_run(id, h);
	if (o->chain) {
		int id2 = new_id2(o);
		ds_flag(CF_CHAIN);
		call_ent(id2);
		F(call_rcu)(&o->head2, cb2);
		call_retd(id2);
	} else {
		uatomic_store(&o->val, 0xdeadul); uatomic_store(&o->chk, 0xdeadul);
		free(o);
	}
	cb_finish(id);
}

static struct obj *new_obj(int chain)
{
	struct obj *o = calloc(1, sizeof *o);
	o->chain = chain;
	o->val = 0x1000 + (unsigned long)o; o->chk = ~o->val;
	return o;
}
static NS void set_obj_id(struct obj *o) { o->id = new_id(&o->head); if (o->id >= 100) ds_bad_case("too many objects"); }

static void do_readobj(int k)
{
	struct obj *p = rcu_dereference(OBJ[k]);
	if (!p) return;
	unsigned long v = uatomic_load(&p->val);
	unsigned long c = uatomic_load(&p->chk);
	if (c != ~v) ds_fail("object %p of slot %d read inside a read-side section has val=%lx chk=%lx (reclaimed)", (void *)p, k, v, c);
}
static NS int obj_id(struct obj *o) { return o->id; }
static void do_callrcu(int k, int chain)
{
	struct obj *n = new_obj(0), *old;
	old = rcu_xchg_pointer(&OBJ[k], n);
	if (!old) return;
	old->chain = chain;
	set_obj_id(old);
	int id = obj_id(old);
	call_ent(id);
	F(call_rcu)(&old->head, cb1);
	call_retd(id);
}

/* burst n: n small callbacks queued back to back by one thread (all but the first as one scheduling step), so that a helper's batch crosses the sizes
 * at which an implementation might chunk, cap or index it. Tracked by counters and one flag byte per callback, not by the per-id tables. */
#define MAXFILL 20000
struct filler { struct rcu_head head; int idx; int ran; };
static struct filler *fillers; static unsigned char fill_runs[MAXFILL];
static int fill_queued, fill_done;
static NS void fill_run(struct filler *f)
{
	if (f->idx < 0 || f->idx >= MAXFILL || f != &fillers[f->idx]) ds_fail("burst callback invoked with an rcu_head that was never passed to call_rcu() (%p)", (void *)f);
	if (++fill_runs[f->idx] > 1) ds_fail("burst callback %d invoked %d times", f->idx, fill_runs[f->idx]);
	fill_done++; outstanding--;
}
static void cb_fill(struct rcu_head *h)
{
	struct filler *f = caa_container_of(h, struct filler, head);
	uatomic_store(&f->ran, 1);	/* a visible store: the engine's no-progress detector must see the helper working through the batch */
	fill_run(f);
}
static NS struct filler *fill_new(void) { if (fill_queued >= MAXFILL) ds_bad_case("too many burst callbacks"); struct filler *f = &fillers[fill_queued]; f->idx = fill_queued; return f; }
static NS void fill_sent(void) { fill_queued++; outstanding++; }
static NS void fill_alloc(void) { if (!fillers) { fillers = calloc(MAXFILL, sizeof *fillers); } }
static void do_burst(long n)
{
	fill_alloc();
	ds_flag(CF_BURST);
	for (long k = 0; k < n; k++) {
		if (k == 1) ds_bulk(1);
		struct filler *f = fill_new();
		F(call_rcu)(&f->head, cb_fill);
		fill_sent();
	}
	ds_bulk(0);
}
static NS int fill_snapshot(void) { return fill_queued; }
static NS void fill_check(int snap) { if (fill_done < snap) ds_fail("rcu_barrier() returned but only %d of the %d burst callbacks whose call_rcu() had returned before it was called have run", fill_done, snap); }

struct barsnap { int ids[MAXID]; int n; };
static NS void bar_ent(struct barsnap *s)
{
	s->n = 0;
	for (int id = 1; id < MAXID; id++) if (call_ret[id] && !cb_done[id]) s->ids[s->n++] = id;
	if (s->n) ds_flag(CF_BARRIER_PENDING);
	if (barriers_active) ds_flag(CF_BARRIER_CONCURRENT);
	barriers_active++;
	ds_ev(EV_BAR_ENT, s->n, 0);
}
static NS void bar_ret(struct barsnap *s)
{
	barriers_active--;
	ds_ev(EV_BAR_RET, s->n, 0);
	for (int i = 0; i < s->n; i++)
		if (!cb_done[s->ids[i]])
			ds_fail("rcu_barrier() returned but callback %d, whose call_rcu() had returned before rcu_barrier() was called, has %s", s->ids[i], cb_count[s->ids[i]] ? "not finished executing" : "not run");
}
static void do_barrier(void)
{
	struct barsnap s;
#ifdef FL_QSBR
	int was = my_depth();
	if (was) sec_end();
#endif
	bar_ent(&s);
	int fsnap = fill_snapshot();
	F(barrier)();
	bar_ret(&s);
	fill_check(fsnap);
#ifdef FL_QSBR
	if (was) sec_begin();
#endif
}

static NS void poll_start_ent(int h) { h_start[h] = ds_now(); ds_ev(EV_POLL_START, h, 0); }
static NS void poll_start_ret(int h, struct urcu_gp_poll_state st) { handles[h] = st; h_valid[h] = 1; h_true[h] = 0; if (polls_started++) ds_flag(CF_POLL_WHILE_ACTIVE); }
static NS struct urcu_gp_poll_state get_handle(int h) { if (!h_valid[h]) ds_bad_case("poll of unset handle"); return handles[h]; }
static NS void poll_result(int h, int r)
{
	if (r && !h_true[h]) { h_true[h] = 1; ds_ev(EV_POLL_TRUE, h, (long)h_start[h]); }
	else if (!r && h_true[h]) ds_fail("poll_state_synchronize_rcu(handle %d) returned false after having returned true", h);
}
static int do_poll(int h)
{
	struct urcu_gp_poll_state st = get_handle(h);
	int r = F(poll_state_synchronize_rcu)(st);
	poll_result(h, r);
	return r;
}

enum { OP_LOCK, OP_UNLOCK, OP_READOBJ, OP_CALLRCU, OP_BARRIER, OP_MKTHR, OP_RMTHR, OP_SPOLL, OP_POLL, OP_POLLWAIT, OP_YIELD,
       OP_MKCPU, OP_RMCPU, OP_SETCPU, OP_UNSETCPU, OP_BURST, OP_BAD };
static NS int fetch(int t, int i, long *a0, long *a1)
{
	static const char *names[] = { "lock", "unlock", "readobj", "callrcu", "barrier", "mkthr", "rmthr", "spoll", "poll", "pollwait", "yield",
		"mkcpu", "rmcpu", "setcpu", "unsetcpu", "burst" };
	const struct ds_op *o = ds_op(t, i);
	*a0 = o->a[0]; *a1 = o->a[1];
	for (int k = 0; k < OP_BAD; k++) if (!strcmp(o->name, names[k])) return k;
	ds_bad_case("crcu: unknown op %s", o->name);
}

static void run_program(int t, int unreg)
{
	int n = ds_nops(t);
	F(register_thread)();
#ifdef FL_QSBR
	F(thread_offline)();
#endif
	for (int i = 0; i < n; i++) {
		long a0, a1;
		int op = fetch(t, i, &a0, &a1);
		ds_op_begin(i);
		switch (op) {
		case OP_LOCK:
#ifdef FL_QSBR
			F(thread_online)();
#else
			F(read_lock)();
#endif
			sec_begin();
			break;
		case OP_UNLOCK:
			sec_end();
#ifdef FL_QSBR
			F(thread_offline)();
#else
			F(read_unlock)();
#endif
			break;
		case OP_READOBJ: do_readobj((int)a0); break;
		case OP_CALLRCU: do_callrcu((int)a0, (int)a1); break;
		case OP_BARRIER: do_barrier(); break;
		case OP_BURST: do_burst(a0); break;
		case OP_MKTHR: {
			struct call_rcu_data *crd = F(create_call_rcu_data)(a0 ? URCU_CALL_RCU_RT : 0, -1);
			if (!crd) ds_fail("create_call_rcu_data failed");
			F(set_thread_call_rcu_data)(crd);
			ds_flag(CF_PERTHREAD);
			break;
		}
		case OP_RMTHR: {
			struct call_rcu_data *crd = F(get_thread_call_rcu_data)();
			F(set_thread_call_rcu_data)(NULL);
			F(call_rcu_data_free)(crd);
			break;
		}
		case OP_SPOLL: {
			poll_start_ent((int)a0);
			struct urcu_gp_poll_state st = F(start_poll_synchronize_rcu)();
			poll_start_ret((int)a0, st);
			break;
		}
		case OP_POLL: do_poll((int)a0); break;
		case OP_POLLWAIT: while (!do_poll((int)a0)) ds_yield(); break;
		case OP_YIELD: ds_yield(); break;
		case OP_MKCPU:
			{ int r = F(create_all_cpu_call_rcu_data)(a0 ? URCU_CALL_RCU_RT : 0); if (r) ds_fail("create_all_cpu_call_rcu_data failed: %d", r); }
			ds_flag(CF_PERCPU);
			break;
		case OP_RMCPU: F(free_all_cpu_call_rcu_data)(); break;
		case OP_SETCPU: {
			struct call_rcu_data *crd = F(create_call_rcu_data)(a1 ? URCU_CALL_RCU_RT : 0, (int)a0);
			if (!crd) ds_fail("create_call_rcu_data failed");
			if (F(set_cpu_call_rcu_data)((int)a0, crd)) { F(call_rcu_data_free)(crd); }
			else ds_flag(CF_PERCPU);
			break;
		}
		case OP_UNSETCPU: {
			struct call_rcu_data *crd;
			F(read_lock)();
			crd = F(get_cpu_call_rcu_data)((int)a0);
			F(read_unlock)();
			if (crd) {
				F(set_cpu_call_rcu_data)((int)a0, NULL);
				F(synchronize_rcu)();	/* documented: a grace period between set_cpu_call_rcu_data(NULL) and free */
				F(call_rcu_data_free)(crd);
			}
			break;
		}
		default: ds_bad_case("crcu: bad op");
		}
	}
	ds_op_begin(-1);
	if (unreg) F(unregister_thread)();
}
static void *thread_main(void *arg) { run_program((int)(long)arg, 1); return NULL; }

static NS void final_oracles(void)
{
	/* exactly once */
	if (fill_done != fill_queued) ds_fail("%d burst callbacks were passed to call_rcu() but %d had run by the end of the scenario", fill_queued, fill_done);
	for (int id = 1; id < MAXID; id++) {
		if (call_ret[id] && cb_count[id] != 1) ds_fail("callback %d passed to call_rcu() was invoked %d times by the end of the scenario", id, cb_count[id]);
	}
	/* grace period between call_rcu() entry and callback invocation */
	for (int r = 0; r < ds_nev; r++) {
		if (ds_evs[r].kind != EV_CB_RUN) continue;
		int id = (int)ds_evs[r].a;
		unsigned long ce = call_ent_step[id], run = ds_evs[r].step;
		for (int l = 0; l < r; l++) {
			if (ds_evs[l].kind != EV_SEC_BEGIN || ds_evs[l].step >= ce) continue;
			unsigned long ue = ~0ul;
			for (int j = l + 1; j < ds_nev; j++) if (ds_evs[j].kind == EV_SEC_END && ds_evs[j].a == ds_evs[l].a) { ue = ds_evs[j].step; break; }
			if (ue > ce) ds_flag(CF_CB_WAITED);
			if (ue > run)
				ds_fail("callback %d ran at step %lu, before read-side section %ld of E%d (begun at step %lu, before call_rcu() was called at step %lu) ended at step %lu",
					id, run, ds_evs[l].a, ds_evs[l].thr, ds_evs[l].step, ce, ue);
		}
	}
	/* polling: first true => every section in progress at start_poll has ended */
	for (int p = 0; p < ds_nev; p++) {
		if (ds_evs[p].kind != EV_POLL_TRUE) continue;
		unsigned long ps = (unsigned long)ds_evs[p].b, pt = ds_evs[p].step;
		for (int l = 0; l < p; l++) {
			if (ds_evs[l].kind != EV_SEC_BEGIN || ds_evs[l].step >= ps) continue;
			unsigned long ue = ~0ul;
			for (int j = l + 1; j < ds_nev; j++) if (ds_evs[j].kind == EV_SEC_END && ds_evs[j].a == ds_evs[l].a) { ue = ds_evs[j].step; break; }
			if (ue > ps) ds_flag(CF_CB_WAITED);
			if (ue > pt)
				ds_fail("poll_state_synchronize_rcu(handle %ld) returned true at step %lu although section %ld of E%d, in progress when start_poll was called at step %lu, ended only at step %lu",
					ds_evs[p].a, pt, ds_evs[l].a, ds_evs[l].thr, ps, ue);
		}
	}
}

extern void F(start_poll_synchronize_rcu_verif_set_gp_id)(unsigned long id);
/* cfg pollwarp k: once every thread has finished, T0 polls every handle of the case until it is true, fast-forwards the polling counter (URCU_VERIF hook)
 * by a large number of grace periods - the handles age by that much - and polls them again: a handle that has completed stays completed however
 * old it gets (up to half the counter range); then a fresh handle is taken and must complete as usual. */
static NS int handle_valid(int h) { return h_valid[h]; }
static NS unsigned long handle_id(int h) { return handles[h].grace_period_id; }
static void poll_warp_phase(void)
{
	static const unsigned long deltas[] = { 0, (1ul << 31) - 1, 1ul << 31, (1ul << 31) + 1, (1ul << 32) - 1, 1ul << 32, (1ul << 32) + 1, 1ul << 62, 1000, 3ul << 31 };
	long k = ds_cfg("pollwarp", 0);
	if (k <= 0 || k >= (long)(sizeof deltas / sizeof *deltas)) return;
	unsigned long maxid = 0; int any = 0;
	for (int h = 0; h < MAXH; h++) if (handle_valid(h)) {
		while (!do_poll(h)) ds_yield();
		if (!any || (long)(handle_id(h) - maxid) > 0) maxid = handle_id(h);
		any = 1;
	}
	if (!any) return;
	ds_flag(CF_POLL_AGED);
	F(start_poll_synchronize_rcu_verif_set_gp_id)(maxid + 1 + deltas[k]);	/* every handle is true, so the worker is idle and its counter is maxid + 1 */
	for (int h = 0; h < MAXH; h++) if (handle_valid(h)) (void) do_poll(h);
	int fresh = -1; for (int h = MAXH - 1; h >= 0; h--) if (!handle_valid(h)) { fresh = h; break; }
	if (fresh < 0) return;
#ifdef FL_QSBR
	F(thread_online)();
#endif
	poll_start_ent(fresh);
	struct urcu_gp_poll_state st = F(start_poll_synchronize_rcu)();
	poll_start_ret(fresh, st);
#ifdef FL_QSBR
	F(thread_offline)();
#endif
	while (!do_poll(fresh)) ds_yield();
	for (int h = 0; h < MAXH; h++) if (handle_valid(h)) (void) do_poll(h);
}

static int tids[16];
static void scenario(void)
{
	int np = ds_prog_threads();
	FL_SET_MEMBARRIER((int)ds_cfg("membarrier", 1));
	for (int k = 0; k < MAXK; k++) OBJ[k] = new_obj(0);
	/* polling counter fast-forwarded (URCU_VERIF hook) to just below the unsigned or the signed wrap: a history with that many earlier polled grace periods */
	long pk = ds_cfg("pollbase", 0), po = ds_cfg("polloff", 0);
	if (pk) {
		ds_flag(CF_POLL_WRAP);
		F(start_poll_synchronize_rcu_verif_set_gp_id)(pk == 1 ? -1UL - (unsigned long)po : pk == 2 ? (unsigned long)LONG_MAX - (unsigned long)po : (unsigned long)po << 40);
	}
	for (int t = 1; t < np; t++) tids[t] = ds_spawn(thread_main, (void *)(long)t);
	run_program(0, 0);
	for (int t = 1; t < np; t++) ds_join(tids[t]);
	ds_op_begin(98);
	poll_warp_phase();
	ds_op_begin(99);
	if (ds_cfg("drain", 1)) {
		F(barrier)(); F(barrier)();
	} else {
		ds_flag(CF_PASSIVE_DRAIN);
		while (get_outstanding() > 0) ds_yield();
	}
	F(unregister_thread)();
	final_oracles();
	ds_done();
}
DS_SCENARIO(FLSCEN("crcu"), scenario)
