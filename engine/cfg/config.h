/* include/config.h.  Generated from config.h.in by configure.  */
/* include/config.h.in.  Generated from configure.ac by autoheader.  */

/* Enable extra debugging checks for lock-free hash table iterator traversal.
   Alters the rculfhash ABI. Make sure to compile both library and application
   with matching configuration. */
/* #undef CONFIG_CDS_LFHT_ITER_DEBUG */

/* Enable internal debugging self-checks. Introduces a performance penalty. */
/* #undef CONFIG_RCU_DEBUG */

/* Emit legacy memory barriers that were documented in the APIs. */
#define CONFIG_RCU_EMIT_LEGACY_MB 1

/* Require the operating system to support the membarrier system call for
   default and bulletproof flavors. */
/* #undef CONFIG_RCU_FORCE_SYS_MEMBARRIER */

/* clock_gettime() is detected. */
#define CONFIG_RCU_HAVE_CLOCK_GETTIME 1

/* Enable SMP support. With SMP support enabled, uniprocessors are also
   supported. With SMP support disabled, UP systems work fine, but the
   behavior of SMP systems is undefined. */
#define CONFIG_RCU_SMP 1

/* Use compiler provided Thread Local Storage. */
#define CONFIG_RCU_TLS 1

/* Use compiler atomic builtins. */
/* #undef CONFIG_RCU_USE_ATOMIC_BUILTINS */

/* Define to 1 if you have the `atexit' function. */
#define HAVE_ATEXIT 1

/* define if the compiler supports basic C++11 syntax */
#define HAVE_CXX11 1

/* Define to 1 if you have the <dlfcn.h> header file. */
#define HAVE_DLFCN_H 1

/* Define to 1 if you have the `fork' function. */
#define HAVE_FORK 1

/* Define to 1 if you have the `getcpuid' function. */
/* #undef HAVE_GETCPUID */

/* Define to 1 if you have the `getpagesize' function. */
#define HAVE_GETPAGESIZE 1

/* Define to 1 if you have the `gettid' function. */
#define HAVE_GETTID 1

/* Define to 1 if you have the `gettimeofday' function. */
#define HAVE_GETTIMEOFDAY 1

/* Define to 1 if you have the <inttypes.h> header file. */
#define HAVE_INTTYPES_H 1

/* Define to 1 if you have the <limits.h> header file. */
#define HAVE_LIMITS_H 1

/* Define to 1 if you have the `memeset' function. */
/* #undef HAVE_MEMESET */

/* Define to 1 if you have the `memset' function. */
#define HAVE_MEMSET 1

/* Define to 1 if you have the <minix/config.h> header file. */
/* #undef HAVE_MINIX_CONFIG_H */

/* Define to 1 if you have a working `mmap' system call. */
#define HAVE_MMAP 1

/* Define to 1 if you have the `munmap' function. */
#define HAVE_MUNMAP 1

/* Define if you have POSIX threads libraries and header files. */
#define HAVE_PTHREAD 1

/* Have PTHREAD_PRIO_INHERIT. */
#define HAVE_PTHREAD_PRIO_INHERIT 1

/* Define to 1 if you have the `rand_r' function. */
#define HAVE_RAND_R 1

/* Define to 1 if you have the `sched_getcpu' function. */
#define HAVE_SCHED_GETCPU 1

/* Define to 1 if you have the `sched_setaffinity' function. */
#define HAVE_SCHED_SETAFFINITY 1

/* Define to 1 if stdbool.h conforms to C99. */
#define HAVE_STDBOOL_H 1

/* Define to 1 if you have the <stddef.h> header file. */
#define HAVE_STDDEF_H 1

/* Define to 1 if you have the <stdint.h> header file. */
#define HAVE_STDINT_H 1

/* Define to 1 if you have the <stdio.h> header file. */
#define HAVE_STDIO_H 1

/* Define to 1 if you have the <stdlib.h> header file. */
#define HAVE_STDLIB_H 1

/* Define to 1 if you have the `strerror' function. */
#define HAVE_STRERROR 1

/* Define to 1 if you have the <strings.h> header file. */
#define HAVE_STRINGS_H 1

/* Define to 1 if you have the <string.h> header file. */
#define HAVE_STRING_H 1

/* Define to 1 if you have the `strtoul' function. */
#define HAVE_STRTOUL 1

/* Define to 1 if you have the `sysconf' function. */
#define HAVE_SYSCONF 1

/* Define to 1 if you have the <sys/param.h> header file. */
#define HAVE_SYS_PARAM_H 1

/* Define to 1 if you have the <sys/stat.h> header file. */
#define HAVE_SYS_STAT_H 1

/* Define to 1 if you have the <sys/time.h> header file. */
#define HAVE_SYS_TIME_H 1

/* Define to 1 if you have the <sys/types.h> header file. */
#define HAVE_SYS_TYPES_H 1

/* Define to 1 if typeof works with your compiler. */
#define HAVE_TYPEOF 1

/* Define to 1 if you have the <unistd.h> header file. */
#define HAVE_UNISTD_H 1

/* Define to 1 if you have the `vfork' function. */
#define HAVE_VFORK 1

/* Define to 1 if you have the <vfork.h> header file. */
/* #undef HAVE_VFORK_H */

/* Define to 1 if you have the <wchar.h> header file. */
#define HAVE_WCHAR_H 1

/* Define to 1 if `fork' works. */
#define HAVE_WORKING_FORK 1

/* Define to 1 if `vfork' works. */
#define HAVE_WORKING_VFORK 1

/* Define to 1 if the system has the type `_Bool'. */
#define HAVE__BOOL 1

/* define if your compiler has __attribute__ */
#define HAVE___ATTRIBUTE__ 1

/* Define to the sub-directory where libtool stores uninstalled libraries. */
#define LT_OBJDIR ".libs/"

/* Name of package */
#define PACKAGE "userspace-rcu"

/* Define to the address where bug reports for this package should be sent. */
#define PACKAGE_BUGREPORT "mathieu dot desnoyers at efficios dot com"

/* Define to the full name of this package. */
#define PACKAGE_NAME "userspace-rcu"

/* Define to the full name and version of this package. */
#define PACKAGE_STRING "userspace-rcu 0.15.0"

/* Define to the one symbol short name of this package. */
#define PACKAGE_TARNAME "userspace-rcu"

/* Define to the home page for this package. */
#define PACKAGE_URL "http://liburcu.org/"

/* Define to the version of this package. */
#define PACKAGE_VERSION "0.15.0"

/* Define to necessary symbol if this constant uses a non-standard name on
   your system. */
/* #undef PTHREAD_CREATE_JOINABLE */

/* Define to 1 if all of the C90 standard headers exist (not just the ones
   required in a freestanding environment). This macro is provided for
   backward compatibility; new code need not use it. */
#define STDC_HEADERS 1

/* Enable extensions on AIX 3, Interix.  */
#ifndef _ALL_SOURCE
# define _ALL_SOURCE 1
#endif
/* Enable general extensions on macOS.  */
#ifndef _DARWIN_C_SOURCE
# define _DARWIN_C_SOURCE 1
#endif
/* Enable general extensions on Solaris.  */
#ifndef __EXTENSIONS__
# define __EXTENSIONS__ 1
#endif
/* Enable GNU extensions on systems that have them.  */
#ifndef _GNU_SOURCE
# define _GNU_SOURCE 1
#endif
/* Enable X/Open compliant socket functions that do not require linking
   with -lxnet on HP-UX 11.11.  */
#ifndef _HPUX_ALT_XOPEN_SOCKET_API
# define _HPUX_ALT_XOPEN_SOCKET_API 1
#endif
/* Identify the host operating system as Minix.
   This macro does not affect the system headers' behavior.
   A future release of Autoconf may stop defining this macro.  */
#ifndef _MINIX
/* # undef _MINIX */
#endif
/* Enable general extensions on NetBSD.
   Enable NetBSD compatibility extensions on Minix.  */
#ifndef _NETBSD_SOURCE
# define _NETBSD_SOURCE 1
#endif
/* Enable OpenBSD compatibility extensions on NetBSD.
   Oddly enough, this does nothing on OpenBSD.  */
#ifndef _OPENBSD_SOURCE
# define _OPENBSD_SOURCE 1
#endif
/* Define to 1 if needed for POSIX-compatible behavior.  */
#ifndef _POSIX_SOURCE
/* # undef _POSIX_SOURCE */
#endif
/* Define to 2 if needed for POSIX-compatible behavior.  */
#ifndef _POSIX_1_SOURCE
/* # undef _POSIX_1_SOURCE */
#endif
/* Enable POSIX-compatible threading on Solaris.  */
#ifndef _POSIX_PTHREAD_SEMANTICS
# define _POSIX_PTHREAD_SEMANTICS 1
#endif
/* Enable extensions specified by ISO/IEC TS 18661-5:2014.  */
#ifndef __STDC_WANT_IEC_60559_ATTRIBS_EXT__
# define __STDC_WANT_IEC_60559_ATTRIBS_EXT__ 1
#endif
/* Enable extensions specified by ISO/IEC TS 18661-1:2014.  */
#ifndef __STDC_WANT_IEC_60559_BFP_EXT__
# define __STDC_WANT_IEC_60559_BFP_EXT__ 1
#endif
/* Enable extensions specified by ISO/IEC TS 18661-2:2015.  */
#ifndef __STDC_WANT_IEC_60559_DFP_EXT__
# define __STDC_WANT_IEC_60559_DFP_EXT__ 1
#endif
/* Enable extensions specified by ISO/IEC TS 18661-4:2015.  */
#ifndef __STDC_WANT_IEC_60559_FUNCS_EXT__
# define __STDC_WANT_IEC_60559_FUNCS_EXT__ 1
#endif
/* Enable extensions specified by ISO/IEC TS 18661-3:2015.  */
#ifndef __STDC_WANT_IEC_60559_TYPES_EXT__
# define __STDC_WANT_IEC_60559_TYPES_EXT__ 1
#endif
/* Enable extensions specified by ISO/IEC TR 24731-2:2010.  */
#ifndef __STDC_WANT_LIB_EXT2__
# define __STDC_WANT_LIB_EXT2__ 1
#endif
/* Enable extensions specified by ISO/IEC 24747:2009.  */
#ifndef __STDC_WANT_MATH_SPEC_FUNCS__
# define __STDC_WANT_MATH_SPEC_FUNCS__ 1
#endif
/* Enable extensions on HP NonStop.  */
#ifndef _TANDEM_SOURCE
# define _TANDEM_SOURCE 1
#endif
/* Enable X/Open extensions.  Define to 500 only if necessary
   to make mbstate_t available.  */
#ifndef _XOPEN_SOURCE
/* # undef _XOPEN_SOURCE */
#endif


/* Version number of package */
#define VERSION "0.15.0"

/* Number of bits in a file offset, on hosts where this is settable. */
/* #undef _FILE_OFFSET_BITS */

/* Define for large files, on AIX-style hosts. */
/* #undef _LARGE_FILES */

/* Define for Solaris 2.5.1 so the uint32_t typedef from <sys/synch.h>,
   <pthread.h>, or <semaphore.h> is not used. If the typedef were allowed, the
   #define below would cause a syntax error. */
/* #undef _UINT32_T */

/* Define for Solaris 2.5.1 so the uint64_t typedef from <sys/synch.h>,
   <pthread.h>, or <semaphore.h> is not used. If the typedef were allowed, the
   #define below would cause a syntax error. */
/* #undef _UINT64_T */

/* Define for Solaris 2.5.1 so the uint8_t typedef from <sys/synch.h>,
   <pthread.h>, or <semaphore.h> is not used. If the typedef were allowed, the
   #define below would cause a syntax error. */
/* #undef _UINT8_T */

/* Define to `__inline__' or `__inline' if that's what the C compiler
   calls it, or to nothing if 'inline' is not supported under any name.  */
#ifndef __cplusplus
/* #undef inline */
#endif

/* Define to the type of a signed integer type of width exactly 32 bits if
   such a type exists and the standard includes do not define it. */
/* #undef int32_t */

/* Define as a signed integer type capable of holding a process identifier. */
/* #undef pid_t */

/* Define to `unsigned int' if <sys/types.h> does not define. */
/* #undef size_t */

/* Define to `int' if <sys/types.h> does not define. */
/* #undef ssize_t */

/* Define to __typeof__ if your compiler spells it that way. */
/* #undef typeof */

/* Define to the type of an unsigned integer type of width exactly 16 bits if
   such a type exists and the standard includes do not define it. */
/* #undef uint16_t */

/* Define to the type of an unsigned integer type of width exactly 32 bits if
   such a type exists and the standard includes do not define it. */
/* #undef uint32_t */

/* Define to the type of an unsigned integer type of width exactly 64 bits if
   such a type exists and the standard includes do not define it. */
/* #undef uint64_t */

/* Define to the type of an unsigned integer type of width exactly 8 bits if
   such a type exists and the standard includes do not define it. */
/* #undef uint8_t */

/* Define as `fork' if `vfork' does not work. */
/* #undef vfork */
