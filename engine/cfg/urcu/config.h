/* include/urcu/config.h.  Generated from config.h.in by configure.  */
// SPDX-FileCopyrightText: 2023 EfficiOS Inc.
//
// SPDX-License-Identifier: LGPL-2.1-or-later

/* urcu/config.h.in. Manually generated for control over the contained defs. */

/* Enable SMP support. With SMP support enabled, uniprocessors are also
   supported. With SMP support disabled, UP systems work fine, but the
   behavior of SMP systems is undefined. */
#define CONFIG_RCU_SMP 1

/* TLS provided by the compiler. */
#define CONFIG_RCU_TLS 1

/* clock_gettime() is detected. */
#define CONFIG_RCU_HAVE_CLOCK_GETTIME 1

/* Require the operating system to support the membarrier system call for
   default and bulletproof flavors. */
/* #undef CONFIG_RCU_FORCE_SYS_MEMBARRIER */

/* Enable internal debugging self-checks.
   Introduces a performance penalty. */
/* #undef CONFIG_RCU_DEBUG */

/* Uatomic API uses atomic builtins. */
/* #undef CONFIG_RCU_USE_ATOMIC_BUILTINS */

/* Emit legacy memory barriers? */
#define CONFIG_RCU_EMIT_LEGACY_MB 1

/* Expose multi-flavor support */
#define CONFIG_RCU_HAVE_MULTIFLAVOR 1

/* Enable extra debugging checks for lock-free hash table iterator
   traversal. */
/* #undef CONFIG_CDS_LFHT_ITER_DEBUG */
