/*
 * Scenario "gp_<flavor>": readers, updaters, dynamic registration, signal handlers.
 * Serves C01, C02, C15, C19.   DS_PER_FLAVOR
 *
 * Program operations (thread programs T1..Tn; T0 optional: spawn/join control):
 *   reg | unreg            register / unregister as reader (bp: first use / nothing)
 *   lock | unlock          rcu_read_lock / rcu_read_unlock (nesting allowed)
 *   nest n | unnest n      n further nested rcu_read_lock() / rcu_read_unlock() calls inside the current section (depths around 2^8, 2^15, 2^16, 2^17)
 *   read u                 litmus + pointer reads for updater slot u (inside a section / qsbr online)
 *   sync u                 A[u]=g; old=xchg(P[u],new); synchronize_rcu(); B[u]=g; poison+free(old)
 *   qs | offline | online  qsbr only
 *   yield                  application-level spin hint
 *   T0: spawn t | join t   thread life-time control (default: spawn all, join all)
 *   T0: herd n | unherd    n extra threads that register (first read-side call) and stay alive until unherd (bp registry growth, C15)
 *
 * Oracles (DESIGN.md §4): grace-period interval oracle over every lock/unlock pair (and qsbr
 * online periods), value litmus, pointer/shadow-heap oracle, reader-state restoration across
 * signal handlers, bp reader-slot stability.  Termination is judged by the engine (§2.6).
 */
#define _GNU_SOURCE
#include <pthread.h>
#include <stdio.h>
#include <stdlib.h>
#include <string.h>
#include <unistd.h>
#include "flavor.h"
#include "ds.h"

#define NS __attribute__((no_sanitize_thread, noinline))
#define MAXU 8
#define MAXTH 16

enum { EV_SEC_BEGIN = 1, EV_SEC_END, EV_SYNC_ENT, EV_SYNC_RET };
enum { CF_GP_WAITED = 0, CF_SYNC_CONCURRENT = 1, CF_NESTED = 2, CF_SIG_IN_LIB = 3, CF_REG_DURING_GP = 4, CF_HANDLER_SEC = 5, CF_BP_GROW = 6, CF_SOLO_DURING_GP = 7, CF_WAITED_FOR_GP = 8, CF_HERD = 9, CF_DEEP_NEST = 10 };

struct node { unsigned long gen, chk; };

static unsigned long A[MAXU], B[MAXU];
static struct node *P[MAXU];
static unsigned long gen_ctr[MAXU];

/* bookkeeping, never instrumented */
static int sec_ctr;
static int sync_active;		/* number of synchronize_rcu calls in flight */
struct tstate { int depth; int online; int registered; unsigned long maxb[MAXU]; int secid[8]; int in_lib; void *bp_slot; int sig_depth; };
static struct tstate ts[128];
static int tids[MAXTH];

static NS struct tstate *me_ts(void) { return &ts[ds_self()]; }
static NS void sec_begin(void)
{
	struct tstate *t = me_ts();
	int id = ++sec_ctr;
	if (t->depth < 8) t->secid[t->depth] = id;
	if (t->depth == 0) memset(t->maxb, 0, sizeof t->maxb); else ds_flag(CF_NESTED);
	t->depth++;
	ds_ev(EV_SEC_BEGIN, id, t->depth);
}
static NS void sec_end(void)
{
	struct tstate *t = me_ts();
	t->depth--;
	ds_ev(EV_SEC_END, t->depth < 8 ? t->secid[t->depth] : 0, t->depth + 1);
}
static NS void note_b(int u, unsigned long b) { struct tstate *t = me_ts(); if (b > t->maxb[u]) t->maxb[u] = b; }
static NS void check_a(int u, unsigned long a)
{
	struct tstate *t = me_ts();
	if (a < t->maxb[u])
		ds_fail("litmus: reader E%d saw post-grace-period store B[%d]=%lu but pre-grace-period store A[%d]=%lu inside one read-side critical section", ds_self(), u, t->maxb[u], u, a);
}
#include <signal.h>
static sigset_t mask_before[128][4];
/* every library call must leave the caller's signal mask as it found it (bp blocks signals around registration and grace periods and restores them) */
static NS void lib_enter(void)
{
	struct tstate *t = me_ts();
	if (t->in_lib < 4) sigprocmask(SIG_SETMASK, NULL, &mask_before[ds_self()][t->in_lib]);	/* per-thread on Linux; not the wrapped pthread_sigmask */
	t->in_lib++;
}
static NS void lib_exit(void)
{
	struct tstate *t = me_ts();
	t->in_lib--;
	if (t->in_lib < 4) {
		sigset_t now; sigprocmask(SIG_SETMASK, NULL, &now);
		for (int s = 1; s < 32; s++)
			if (sigismember(&now, s) != sigismember(&mask_before[ds_self()][t->in_lib], s))
				ds_fail("a library call changed the calling thread's signal mask: signal %d was %s before the call and is %s after it", s,
					sigismember(&mask_before[ds_self()][t->in_lib], s) ? "blocked" : "unblocked", sigismember(&now, s) ? "blocked" : "unblocked");
	}
}

#ifdef FL_QSBR
# define IN_SECTION(t) ((t)->online)
#else
# define IN_SECTION(t) ((t)->depth > 0)
#endif

static void do_lock(void)
{
	lib_enter();
	F(read_lock)();
	lib_exit();
#ifndef FL_QSBR
	sec_begin();
#endif
}
static void do_unlock(void)
{
#ifndef FL_QSBR
	sec_end();
#endif
	lib_enter();
	F(read_unlock)();
	lib_exit();
}
static void do_read(int u)
{
	unsigned long b = uatomic_load(&B[u]);
	note_b(u, b);
	struct node *p = rcu_dereference(P[u]);
	unsigned long g = 0, c = ~0ul;
	if (p) g = uatomic_load(&p->gen);
	unsigned long a = uatomic_load(&A[u]);
	check_a(u, a);
	if (p) {
		c = uatomic_load(&p->chk);
		if (c != ~g) ds_fail("pointer oracle: node %p of updater %d read inside a critical section has gen=%lx chk=%lx (poisoned or reused)", (void *)p, u, g, c);
	}
}
static unsigned long sync_inflight;	/* bit per in-flight synchronize_rcu() call, indexed by the calling thread */
static NS void sync_ent(int u) { if (sync_active) ds_flag(CF_SYNC_CONCURRENT); sync_active++; sync_inflight |= 1ul << ds_self(); ds_ev(EV_SYNC_ENT, u, 0); }
static NS void sync_ret(int u) { sync_active--; sync_inflight &= ~(1ul << ds_self()); ds_ev(EV_SYNC_RET, u, 0); }
static NS unsigned long inflight_snapshot(void) { return sync_inflight; }
static NS int still_inflight(unsigned long snap) { return (sync_inflight & snap) != 0; }
/* C02: the calling thread is quiescent (outside any section / offline / has just announced a quiescent state): every synchronize_rcu() that was in
 * flight at the snapshot needs nothing more from this thread and must return while it merely spins in application code (no RCU call). A lost wake-up
 * leaves the updater asleep and this loop spinning: the engine reports 'stuck'.  (An *online* qsbr thread must not do this, not even right after
 * rcu_quiescent_state(): the grace period of a synchronize_rcu() call that has been entered may begin later and then needs another quiescent state.) */
static void wait_for_syncs(unsigned long snap)
{
	if (!still_inflight(snap)) return;
	ds_flag(CF_WAITED_FOR_GP);
	while (still_inflight(snap)) ds_yield();
}
static void do_sync(int u)
{
	unsigned long g = ++gen_ctr[u];
	struct node *n = malloc(sizeof *n), *old;
	n->gen = g; n->chk = ~g;
	uatomic_store(&A[u], g);
	old = rcu_xchg_pointer(&P[u], n);
	sync_ent(u);
	lib_enter();
	F(synchronize_rcu)();
	lib_exit();
	sync_ret(u);
	uatomic_store(&B[u], g);
	if (old) { uatomic_store(&old->gen, 0xdeadul); uatomic_store(&old->chk, 0xdeadul); free(old); }
}

#ifdef FL_BP
static void *slots_seen[64]; static int nslots_seen; static int live_threads, peak_threads;
static NS void bp_slot_check(void)
{
	struct tstate *t = me_ts();
	void *s = (void *)URCU_TLS(urcu_bp_reader);
	if (!s) return;
	if (!t->bp_slot) {
		t->bp_slot = s;
		int k; for (k = 0; k < nslots_seen; k++) if (slots_seen[k] == s) break;
		if (k == nslots_seen && nslots_seen < 64) { slots_seen[nslots_seen++] = s; ds_note("bp: new reader slot %p (distinct slots so far %d, live threads %d, peak %d)", s, nslots_seen, live_threads, peak_threads); }
		if (nslots_seen > 1) ds_flag(CF_BP_GROW);	/* INIT_READER_COUNT=1 (hook): a second distinct slot means the arena grew */
	}
	else if (t->bp_slot != s) ds_fail("bp: reader slot of E%d moved from %p to %p", ds_self(), t->bp_slot, s);
}
#endif

/* signal handler body (C19): lock, litmus reads, unlock; read-side state must be restored */
static int sig_reads;
struct sigsave { unsigned long maxb[MAXU]; int id; };
static NS void sig_pre(int tid, struct sigsave *sv)
{
	struct tstate *t = &ts[tid];
	if (t->in_lib) ds_flag(CF_SIG_IN_LIB);
	ds_flag(CF_HANDLER_SEC);
	/* the handler's own litmus window must not inherit the interrupted section's maxb */
	memcpy(sv->maxb, t->maxb, sizeof sv->maxb);
}
static NS void sig_sec_begin(int tid, struct sigsave *sv)
{
	struct tstate *t = &ts[tid];
	sv->id = ++sec_ctr;
	ds_ev(EV_SEC_BEGIN, sv->id, 100 + t->sig_depth);
	t->sig_depth++;
	memset(t->maxb, 0, sizeof t->maxb);
}
static NS void sig_sec_end(int tid, struct sigsave *sv)
{
	struct tstate *t = &ts[tid];
	t->sig_depth--;
	ds_ev(EV_SEC_END, sv->id, 100 + t->sig_depth);
}
static NS void sig_post(int tid, struct sigsave *sv) { memcpy(ts[tid].maxb, sv->maxb, sizeof sv->maxb); }
static NS int get_sig_reads(void) { return sig_reads; }
#ifdef FL_BP
# define SIG_MAY_RUN(tid) 1
#else
static NS int sig_may_run(int tid) { return ts[tid].registered; }	/* memb/mb: handlers may use RCU only on a registered thread */
# define SIG_MAY_RUN(tid) sig_may_run(tid)
#endif
static void on_signal(int tid)
{
	struct sigsave sv;
	if (!SIG_MAY_RUN(tid)) return;
	int ongoing_before = F(read_ongoing)();
	unsigned long ctr_before = FL_READER_CTR();
	sig_pre(tid, &sv);
	F(read_lock)();
	sig_sec_begin(tid, &sv);
	int nr = get_sig_reads();
	for (int u = 0; u < nr; u++) do_read(u);
	sig_sec_end(tid, &sv);
	F(read_unlock)();
	sig_post(tid, &sv);
	int ongoing_after = F(read_ongoing)();
	unsigned long ctr_after = FL_READER_CTR();
	/* nesting must be restored; if the interrupted code was inside a section its whole reader word (phase snapshot) must be too.
	   With nesting 0 the word legitimately keeps the phase bits of the handler's own outermost lock. */
	if (!!ongoing_before != !!ongoing_after || (ctr_before & FL_NEST_MASK) != (ctr_after & FL_NEST_MASK) || ((ctr_before & FL_NEST_MASK) && ctr_before != ctr_after))
		ds_fail("signal handler on E%d changed read-side state: read_ongoing %d -> %d, reader word %lx -> %lx", tid, ongoing_before, ongoing_after, ctr_before, ctr_after);
}

static NS void set_registered(int v) { me_ts()->registered = v; if (sync_active) ds_flag(CF_REG_DURING_GP); }
static NS void set_online(int v) { me_ts()->online = v; }

enum { OP_REG, OP_UNREG, OP_LOCK, OP_UNLOCK, OP_READ, OP_SYNC, OP_QS, OP_OFFLINE, OP_ONLINE, OP_YIELD, OP_SPAWN, OP_JOIN, OP_GATE, OP_WAITSYNC, OP_QSWAIT, OP_HERD, OP_UNHERD, OP_NEST, OP_UNNEST, OP_BAD };
static NS int fetch(int t, int i, long *a0)
{
	static const char *names[] = { "reg", "unreg", "lock", "unlock", "read", "sync", "qs", "offline", "online", "yield", "spawn", "join", "gate", "waitsync", "qswait", "herd", "unherd", "nest", "unnest" };
	const struct ds_op *o = ds_op(t, i);
	*a0 = o->a[0];
	for (int k = 0; k < OP_BAD; k++) if (!strcmp(o->name, names[k])) return k;
	ds_bad_case("gp: unknown op %s", o->name);
}
static NS int my_online(void) { return me_ts()->online; }
static NS int in_section_now(void) { return me_ts()->depth > 0; }
static NS int get_sync_active(void) { return sync_active; }

static void *thread_main(void *arg)
{
	int t = (int)(long)arg;
	int n = ds_nops(t);
	for (int i = 0; i < n; i++) {
		long a0;
		int op = fetch(t, i, &a0);
		ds_op_begin(i);
		if (op == OP_REG) {
			lib_enter(); F(register_thread)(); lib_exit();
			set_registered(1);
#ifdef FL_QSBR
			set_online(1); sec_begin();
#endif
		} else if (op == OP_UNREG) {
#ifdef FL_QSBR
			if (my_online()) { sec_end(); set_online(0); }
#endif
			set_registered(0);
#ifndef FL_BP
			lib_enter(); F(unregister_thread)(); lib_exit();
#endif
		} else if (op == OP_GATE) { ds_solo_gate(); if (get_sync_active()) ds_flag(CF_SOLO_DURING_GP); }
		else if (op == OP_LOCK) { ds_solo_op_begin(); do_lock(); ds_solo_op_end("rcu_read_lock()", ds_cfg("solo_bound", 60)); }
		else if (op == OP_UNLOCK) { ds_solo_op_begin(); do_unlock(); ds_solo_op_end("rcu_read_unlock()", ds_cfg("solo_bound", 60)); }
		else if (op == OP_READ) {
			do_read((int)a0);
#ifdef FL_BP
			bp_slot_check();
#endif
		}
		else if (op == OP_SYNC) {
#ifdef FL_QSBR
			/* a registered online qsbr thread is implicitly offline for the duration of synchronize_rcu() */
			int was = my_online();
			if (was) sec_end();
			do_sync((int)a0);
			if (was) sec_begin();
#else
			do_sync((int)a0);
#endif
		}
#ifdef FL_QSBR
		else if (op == OP_QS) { sec_end(); lib_enter(); F(quiescent_state)(); lib_exit(); sec_begin(); }
		else if (op == OP_OFFLINE) { sec_end(); set_online(0); lib_enter(); F(thread_offline)(); lib_exit(); }
		else if (op == OP_ONLINE) { lib_enter(); F(thread_online)(); lib_exit(); set_online(1); sec_begin(); }
#endif
#ifndef FL_QSBR
		/* deep nesting: a0 more nested rcu_read_lock() calls inside the current section (all but the last two as one scheduling step), later undone by
		 * unnest; only the outermost lock/unlock delimit the section for the oracles */
		else if (op == OP_NEST) {
			if (!in_section_now()) ds_bad_case("gp: nest outside a section");
			ds_flag(CF_DEEP_NEST);
			long n = a0, fast = n > 2 ? n - 2 : 0;
			ds_bulk(1); for (long k = 0; k < fast; k++) F(read_lock)(); ds_bulk(0);
			for (long k = fast; k < n; k++) { lib_enter(); F(read_lock)(); lib_exit(); }
		}
		else if (op == OP_UNNEST) {
			long n = a0, slow = n > 2 ? 2 : n;
			for (long k = 0; k < slow; k++) { lib_enter(); F(read_unlock)(); lib_exit(); }
			ds_bulk(1); for (long k = slow; k < n; k++) F(read_unlock)(); ds_bulk(0);
		}
#endif
		else if (op == OP_WAITSYNC) wait_for_syncs(inflight_snapshot());
#ifdef FL_QSBR
		else if (op == OP_QSWAIT) { unsigned long snap = inflight_snapshot(); sec_end(); lib_enter(); F(quiescent_state)(); lib_exit(); sec_begin(); wait_for_syncs(snap); }
#endif
		else if (op == OP_YIELD) ds_yield();
		else ds_bad_case("gp: op not valid in a thread program");
	}
	ds_op_begin(-1);
	return NULL;
}

/* herd (bp, C15): n extra threads that each make a first read-side call (lazy registration), then stay alive - blocked on a mutex T0 holds - so that
 * more threads are registered at once than the registry's doubled capacities hold; every fourth one blocks inside its read-side critical section.
 * After T0's `unherd` each reads again (slot unmoved, contents intact) and exits. */
static pthread_mutex_t herd_lock = PTHREAD_MUTEX_INITIALIZER;
static int herd_ids[32], nherd;
static int herd_arrived;
static NS void herd_arrive(void) { herd_arrived++; }
static NS int herd_all_arrived(void) { return herd_arrived >= nherd; }
static void *herd_main(void *arg)
{
	int k = (int)(long)arg, hold = (k % 4) == 3;
	do_lock(); do_read(0);
#ifdef FL_BP
	bp_slot_check();
#endif
	if (!hold) do_unlock();
	herd_arrive();
	pthread_mutex_lock(&herd_lock); pthread_mutex_unlock(&herd_lock);
	if (!hold) do_lock();
	do_read(0);
#ifdef FL_BP
	bp_slot_check();
#endif
	do_unlock();
	return NULL;
}

static NS void note_live(int d)
{
#ifdef FL_BP
	live_threads += d; if (live_threads > peak_threads) peak_threads = live_threads;
#else
	(void)d;
#endif
}
static NS void slot_reuse_oracle(void)
{
#ifdef FL_BP
	/* arena_alloc hands out the first free slot: with at most `peak` threads alive at once, at most `peak` distinct slots are ever used */
	/* (not when the case runs before the library's constructor: the registry is then torn down whenever the last registered thread leaves and rebuilt at
	 * another address on the next first use, so distinct addresses no longer count slots) */
	if (nslots_seen > peak_threads && !ds_cfg("early", 0))
		ds_fail("bp: %d distinct reader slots were handed out although at most %d threads were alive at any time: slots of exited threads are not reused", nslots_seen, peak_threads);
#endif
}
static NS void interval_oracle(void)
{
	/* a section begun (lock returned) before a synchronize_rcu() call and not ended when that call returns is a violation */
	for (int s = 0; s < ds_nev; s++) {
		if (ds_evs[s].kind != EV_SYNC_ENT) continue;
		unsigned long se = ds_evs[s].step, sr = ~0ul; int found = 0;
		for (int j = s + 1; j < ds_nev; j++)
			if (ds_evs[j].kind == EV_SYNC_RET && ds_evs[j].thr == ds_evs[s].thr) { sr = ds_evs[j].step; found = 1; break; }
		if (!found) continue;
		for (int l = 0; l < s; l++) {
			if (ds_evs[l].kind != EV_SEC_BEGIN) continue;
			unsigned long ue = ~0ul;
			for (int j = l + 1; j < ds_nev; j++)
				if (ds_evs[j].kind == EV_SEC_END && ds_evs[j].a == ds_evs[l].a) { ue = ds_evs[j].step; break; }
			if (ue > se) ds_flag(CF_GP_WAITED);
			if (ue > sr)
				ds_fail("grace period too short: section %ld of E%d began at step %lu, synchronize_rcu() of E%d was called at step %lu and returned at step %lu, section ended at step %lu",
					ds_evs[l].a, ds_evs[l].thr, ds_evs[l].step, ds_evs[s].thr, se, sr, ue);
		}
	}
}

static void scenario(void)
{
	int np = ds_prog_threads();
	FL_SET_MEMBARRIER((int)ds_cfg("membarrier", 1));
	sig_reads = (int)ds_cfg("sigreads", 2);
	ds_set_sighandler(on_signal);
	if (ds_nops(0) == 0) {
		for (int t = 1; t < np; t++) { tids[t] = ds_spawn(thread_main, (void *)(long)t); note_live(1); }
		for (int t = 1; t < np; t++) { ds_join(tids[t]); note_live(-1); }
	} else {
		for (int i = 0; i < ds_nops(0); i++) {
			long a0;
			int op = fetch(0, i, &a0);
			ds_op_begin(i);
			int t = (int)a0;
			if (op == OP_HERD) {
				if (nherd || a0 < 1 || a0 > 32) ds_bad_case("gp: bad herd");
				pthread_mutex_lock(&herd_lock);
				for (nherd = 0; nherd < (int)a0; nherd++) { herd_ids[nherd] = ds_spawn(herd_main, (void *)(long)nherd); note_live(1); }
				ds_flag(CF_HERD);
				continue;
			}
			if (op == OP_UNHERD) {
				if (!nherd) ds_bad_case("gp: unherd without herd");
				while (!herd_all_arrived()) ds_yield();	/* all of them registered and alive at once */
				pthread_mutex_unlock(&herd_lock);
				for (int k = 0; k < nherd; k++) { ds_join(herd_ids[k]); note_live(-1); }
				nherd = 0;
				continue;
			}
			if (t < 1 || t >= np) ds_bad_case("gp: bad thread in T0 program");
			if (op == OP_SPAWN) { tids[t] = ds_spawn(thread_main, (void *)(long)t); note_live(1); }
			else if (op == OP_JOIN) { ds_join(tids[t]); note_live(-1); }
			else ds_bad_case("gp: op not valid in T0 program");
		}
	}
	interval_oracle();
	slot_reuse_oracle();
	ds_done();
}
DS_SCENARIO(FLSCEN("gp"), scenario)
