/* dsched: deterministic controlled-concurrency engine — API for scenarios (see DESIGN.md §2) */
#ifndef DS_H
#define DS_H
#include <stdint.h>
#include <stdio.h>
#include <stddef.h>

#define DS_MAXARGS 4
struct ds_op { char name[20]; long a[DS_MAXARGS]; int na; };
struct ds_event { int thr, kind; long a, b; unsigned long step; };

/* case access */
long ds_cfg(const char *key, long dflt);
int ds_prog_threads(void);			/* highest program thread index + 1 */
int ds_nops(int t);
const struct ds_op *ds_op(int t, int i);

/* threads: scenario threads are numbered in spawn order (main = 0) */
int ds_spawn(void *(*fn)(void *), void *arg);	/* returns engine thread id */
void ds_join(int tid);
int ds_self(void);
int ds_scen_index(void);			/* scenario thread number (spawn order, main = 0); -1 for library-created threads */
void ds_op_begin(int i);			/* current thread starts program operation i */
void ds_yield(void);				/* spin hint from scenario code */
void ds_unit(void);				/* unit boundary (see `harass` in rt.c) */
void ds_progress(void);				/* observable progress without a memory write */
void ds_bulk(int on);				/* run a long non-blocking stretch as one scheduling step */

/* bookkeeping (never a scheduling point, never buffered) */
unsigned long ds_now(void);
void ds_ev(int kind, long a, long b);
extern struct ds_event ds_evs[];
extern int ds_nev;
void ds_flag(int bit);				/* per-case class flag 0..63 */
void ds_fail(const char *fmt, ...) __attribute__((noreturn, format(printf, 1, 2)));
void ds_note(const char *fmt, ...) __attribute__((format(printf, 1, 2)));	/* trace output (only with --trace) */
void ds_done(void) __attribute__((noreturn));
void ds_child_budget(const char *msg) __attribute__((noreturn));	/* scenario finished without violation */
void ds_bad_case(const char *fmt, ...) __attribute__((noreturn, format(printf, 1, 2)));

/* raw (uninstrumented) memory helpers for oracles */
void *ds_raw_alloc(size_t n);			/* outside the shadow heap, zeroed */

/* shadow heap introspection */
int ds_heap_state(const void *p);		/* 0 unallocated, 1 live, 2 freed, -1 not in arena */

/* signals: handler runs on the interrupted thread; engine raises per `sig` lines */
void ds_set_sighandler(void (*fn)(int tid));

/* freeze / solo (C17) */
void ds_solo_gate(void);			/* solo thread blocks here until the freeze step */
int ds_solo_active(void);
int ds_solo_thaw(void);			/* C17: resume every suspended thread, return once all of them have finished (1), or 0 when not in solo mode */
unsigned long ds_solo_yields(void);
unsigned long ds_my_steps(void);
/* C17 helper shared by scenarios: ds_solo_op_begin() before / ds_solo_op_end(what, bound) after an operation the calling thread issues after its gate;
 * fails the case if the operation reached a wait hint or took more than `bound` of its own steps */
void ds_solo_op_begin(void);
void ds_solo_op_end(const char *what, long bound);
int ds_i_am_solo(void);

/* store-buffer introspection for oracles: a call that has returned may still have stores in flight (x86-TSO) */
int ds_sb_pending(void);
unsigned long ds_sb_empty_after(int engine_tid, unsigned long step);

/* membarrier availability as seen by the library (QUERY answer) */
extern int ds_membarrier_available;

/* engine-observed class flags (bits 48..63 are set by the engine itself) */
enum {
	DSF_FUTEX_SLEEP = 48, DSF_FUTEX_WAKE_HIT = 49, DSF_DELAYED_STORE = 50, DSF_FORWARD = 51,
	DSF_MEMBARRIER = 52, DSF_FAULT_HIT = 53, DSF_SIGNAL_RUN = 54, DSF_CAS_FAIL = 55,
	DSF_MUTEX_BLOCK = 56, DSF_STALE_READ = 57, DSF_FORKED = 58, DSF_FROZEN = 59, DSF_GATE_PASSED = 60, DSF_SOLO_OP_DONE = 61, DSF_TIMESLICE = 62, DSF_SB_WINDOW = 63, DSF_STALLED = 47, DSF_INPLACE_GROWTH = 46, DSF_ADDRLINE = 45, DSF_HARASS = 44,
};

typedef void (*ds_scenario_fn)(void);
void ds_register_scenario(const char *name, ds_scenario_fn fn);
#define DS_SCENARIO(name, fn) \
	static void __attribute__((constructor(101))) ds_reg_##fn(void) { ds_register_scenario(name, fn); }

#endif
