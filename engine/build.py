#!/usr/bin/env python3
"""Build the dsched engine binary (E1) from /repo's *current working tree*.

The output directory is keyed by a content hash of every input (library
sources and headers, engine sources, flags), so an unchanged tree is not
recompiled and a changed one always is.  Prints the path of the binary.
"""
import hashlib, os, subprocess, sys, glob, shutil
from concurrent.futures import ThreadPoolExecutor

VERIF = os.path.dirname(os.path.dirname(os.path.abspath(__file__)))
REPO = os.environ.get("VERIF_REPO", "/repo")
ENG = os.path.join(VERIF, "engine")
BUILD = os.path.join(VERIF, "build")

TUNE = ["-DURCU_VERIF", "-DURCU_VERIF_RCU_QS_ACTIVE_ATTEMPTS=2", "-DURCU_VERIF_URCU_WAIT_ATTEMPTS=2",
        "-DURCU_VERIF_MIN_PARTITION_PER_THREAD_ORDER=1", "-DURCU_VERIF_COUNT_COMMIT_ORDER=1",
        "-DURCU_VERIF_DEFER_QUEUE_SIZE=8", "-DURCU_VERIF_INIT_READER_COUNT=1"]
INSTR = ["gcc", "-U__SANITIZE_THREAD__", "-O1", "-g", "-fsanitize=thread",
         "--param", "tsan-instrument-func-entry-exit=0", "--param", "tsan-distinguish-volatile=1",
         "-DCONFIG_RCU_USE_ATOMIC_BUILTINS", "-D_GNU_SOURCE", "-fno-pie",
         "-I" + os.path.join(ENG, "cfg"), "-I" + os.path.join(REPO, "include"), "-I" + os.path.join(REPO, "src"),
         "-I" + ENG, "-w", "-DHAVE_CONFIG_H", "-include", os.path.join(ENG, "cfg", "config.h")] + TUNE
PLAIN = ["gcc", "-O1", "-g", "-D_GNU_SOURCE", "-fno-pie", "-I" + ENG, "-Wall", "-Wno-unused-function"]

LIB = [  # (source under REPO/src, object name, extra flags)
    ("urcu.c", "urcu_memb", ["-DRCU_MEMBARRIER"]),
    ("urcu.c", "urcu_mb", ["-DRCU_MB"]),
    ("urcu-qsbr.c", "urcu_qsbr", ["-DRCU_QSBR"]),
    ("urcu-bp.c", "urcu_bp", []),
    ("urcu-pointer.c", "urcu_pointer", []),
    ("wfqueue.c", "wfqueue", []), ("wfcqueue.c", "wfcqueue", []), ("wfstack.c", "wfstack", []),
    ("compat_arch.c", "compat_arch", []), ("compat_futex.c", "compat_futex", []),
    ("rculfqueue.c", "rculfqueue", []), ("rculfstack.c", "rculfstack", []), ("lfstack.c", "lfstack", []),
    ("workqueue.c", "workqueue", []), ("rculfhash.c", "rculfhash", []),
    ("rculfhash-mm-order.c", "mm_order", []), ("rculfhash-mm-chunk.c", "mm_chunk", []), ("rculfhash-mm-mmap.c", "mm_mmap", []),
]
FLAVORS = ["MEMB", "MB", "QSBR", "BP"]
WRAPS = ["pthread_create", "pthread_join", "pthread_exit", "pthread_mutex_lock", "pthread_mutex_trylock", "pthread_mutex_unlock", "pthread_cond_wait", "pthread_cond_signal", "pthread_cond_broadcast",
         "syscall", "poll", "usleep", "sleep", "sched_yield", "fork", "malloc", "calloc", "realloc", "free",
         "posix_memalign", "sched_getcpu", "sched_setaffinity", "open", "mremap", "mmap", "munmap", "pthread_sigmask"]


def scen_units():
    """(source, object name, flags): scen_*.c once per flavor if it contains DS_PER_FLAVOR, else once."""
    out = []
    for src in sorted(glob.glob(os.path.join(ENG, "scen_*.c"))):
        base = os.path.basename(src)[:-2]
        txt = open(src).read()
        if "DS_PER_FLAVOR" in txt:
            for fl in FLAVORS:
                out.append((src, "%s_%s" % (base, fl.lower()), ["-DFL_" + fl]))
        else:
            out.append((src, base, []))
    return out


def input_hash():
    h = hashlib.sha256()
    files = []
    for root in (os.path.join(REPO, "src"), os.path.join(REPO, "include")):
        for dp, dn, fn in os.walk(root):
            dn[:] = [d for d in dn if d not in (".libs", ".deps")]
            for f in fn:
                if f.endswith((".c", ".h")):
                    files.append(os.path.join(dp, f))
    for dp, dn, fn in os.walk(ENG):
        for f in fn:
            if f.endswith((".c", ".h", ".py")):
                files.append(os.path.join(dp, f))
    for f in sorted(files):
        h.update(f.encode()); h.update(open(f, "rb").read())
    h.update(" ".join(INSTR + PLAIN).encode())
    return h.hexdigest()[:16]


def run(cmd):
    r = subprocess.run(cmd, capture_output=True, text=True)
    return r.returncode, cmd, r.stdout + r.stderr


def build(verbose=False):
    hh = input_hash()
    out = os.path.join(BUILD, "e1-" + hh)
    binp = os.path.join(out, "dsched")
    if os.path.exists(binp):
        return binp
    tmp = out + ".tmp%d" % os.getpid()
    shutil.rmtree(tmp, ignore_errors=True)
    os.makedirs(tmp)
    jobs = []
    for src, name, fl in LIB:
        jobs.append(INSTR + fl + ["-c", os.path.join(REPO, "src", src), "-o", os.path.join(tmp, name + ".o")])
    for src, name, fl in scen_units():
        jobs.append(INSTR + ["-D_LGPL_SOURCE"] + fl + ["-c", src, "-o", os.path.join(tmp, name + ".o")])
    for f in ("rt.c", "lin.c"):
        if os.path.exists(os.path.join(ENG, f)):
            jobs.append(PLAIN + ["-c", os.path.join(ENG, f), "-o", os.path.join(tmp, f[:-2] + ".o")])
    with ThreadPoolExecutor(16) as ex:
        res = list(ex.map(run, jobs))
    bad = [r for r in res if r[0]]
    if bad:
        for rc, cmd, o in bad:
            sys.stderr.write("BUILD FAILED: %s\n%s\n" % (" ".join(cmd), o))
        shutil.rmtree(tmp, ignore_errors=True)
        raise SystemExit(3)
    objs = sorted(glob.glob(os.path.join(tmp, "*.o")))
    rc, cmd, o = run(["gcc", "-no-pie"] + objs + ["-o", os.path.join(tmp, "dsched"), "-pthread",
                      "-Wl," + ",".join("--wrap=" + w for w in WRAPS)])
    if rc:
        sys.stderr.write("LINK FAILED: %s\n%s\n" % (" ".join(cmd), o))
        shutil.rmtree(tmp, ignore_errors=True)
        raise SystemExit(3)
    for f in objs:
        os.unlink(f)
    try:
        os.rename(tmp, out)
    except OSError:
        shutil.rmtree(tmp, ignore_errors=True)  # somebody else built it first
    # keep only the 6 most recent engine builds
    olds = sorted(glob.glob(os.path.join(BUILD, "e1-*")), key=os.path.getmtime)
    for d in olds[:-6]:
        if d != out and ".tmp" not in d:
            shutil.rmtree(d, ignore_errors=True)
    return binp


if __name__ == "__main__":
    print(build())
