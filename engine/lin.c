#define _GNU_SOURCE
#include <string.h>
#include <stdlib.h>
#include "lin.h"

#define MEMO_BITS 16
#define MEMO_SIZE (1u << MEMO_BITS)
struct memo_ent { uint64_t done; struct lin_state s; int used; };
static struct memo_ent *memo;
static unsigned long nodes_visited, budget;

static uint64_t hash_key(uint64_t done, const struct lin_state *s)
{
	uint64_t h = (1469598103934665603ull ^ done) * 1099511628211ull; h ^= h >> 31;
	for (int i = 0; i < LIN_STATE_WORDS; i++) { h ^= s->w[i]; h *= 1099511628211ull; h ^= h >> 29; }
	return h;
}
static int memo_seen(uint64_t done, const struct lin_state *s)
{
	uint64_t h = hash_key(done, s);
	for (unsigned i = 0; i < 64; i++) {
		struct memo_ent *e = &memo[(h + i) & (MEMO_SIZE - 1)];
		if (!e->used) { e->used = 1; e->done = done; e->s = *s; return 0; }
		if (e->done == done && !memcmp(&e->s, s, sizeof *s)) return 1;
	}
	return 0;	/* table crowded: treat as unseen (sound, only slower) */
}

static const struct lin_op *g_ops; static int g_n; static lin_apply_fn g_apply; static void *g_ctx; static struct lin_state g_final;

static int dfs(uint64_t done, const struct lin_state *s)
{
	if (done == (g_n == 64 ? ~0ull : (1ull << g_n) - 1)) { g_final = *s; return 1; }
	if (++nodes_visited > budget) return -1;
	if (memo_seen(done, s)) return 0;
	/* an undone op is a candidate iff no other undone op returned before it was called */
	unsigned long min_ret = ~0ul;
	for (int i = 0; i < g_n; i++) if (!(done >> i & 1) && g_ops[i].ret < min_ret) min_ret = g_ops[i].ret;
	int inconclusive = 0;
	for (int i = 0; i < g_n; i++) {
		if (done >> i & 1) continue;
		if (g_ops[i].call > min_ret) continue;
		if (g_ops[i].dep && !(done >> (g_ops[i].dep - 1) & 1)) continue;
		struct lin_state t = *s;
		if (!g_apply(&g_ops[i], &t, g_ctx)) continue;
		int r = dfs(done | 1ull << i, &t);
		if (r == 1) return 1;
		if (r < 0) inconclusive = 1;
	}
	return inconclusive ? -1 : 0;
}

int lin_check(const struct lin_op *ops, int n, const struct lin_state *init, lin_apply_fn apply, void *ctx, struct lin_state *final_out)
{
	if (n > LIN_MAXOPS) return -1;
	if (!memo) memo = calloc(MEMO_SIZE, sizeof *memo);
	else memset(memo, 0, MEMO_SIZE * sizeof *memo);
	g_ops = ops; g_n = n; g_apply = apply; g_ctx = ctx; nodes_visited = 0; budget = 3000000;
	int r = dfs(0, init);
	if (r == 1 && final_out) *final_out = g_final;
	return r;
}
