/*
 * Scenario "lfht_<flavor>": concurrent RCU lock-free hash table operations, resizes, node reclamation.
 * Serves C05, C06, C07 and the schedule-quantified part of C09.   DS_PER_FLAVOR
 *
 * cfg: init_order max_order min_order mm(0 order,1 chunk,2 mmap) flags(bit0 AUTO_RESIZE, bit1 ACCOUNTING)
 *      hash(0 identity,1 all-collide,2 high-bits-only,3 small-collide,4 top-buckets) freemode(0 at thread end, 1 right after the removal via synchronize_rcu,
 *      2 call_rcu)
 * Node ids are static: node of operation i of thread t is t*12+i.  Every table operation runs in its own read-side section.
 *   add k | addu k | addr k      cds_lfht_add / add_unique / add_replace with a fresh node of key k
 *   look k                        lookup
 *   del k                         lookup then cds_lfht_del of the node found
 *   deln t i                      cds_lfht_del of the node created by operation i of thread t (only if that node has been inserted)
 *   repl k                        lookup then cds_lfht_replace of the node found by a fresh node
 *   walk k | scan | count         duplicate walk / full traversal / cds_lfht_count_nodes
 *   resize n                      cds_lfht_resize(ht, n) (outside any section)
 *   yield
 * T0's operations run before the other threads are spawned (pre-population).
 *
 * Oracles: linearizability (Wing-Gong) of all point operations against the multiset-per-key specification; interval predicates for
 * walks/traversals/count (superset of definitely-present, subset of possibly-present, no node twice); single ownership of removed nodes;
 * shadow heap (nodes freed a grace period after removal, bucket arrays, the table itself); final state: traversal = model, destroy refuses a
 * non-empty table, succeeds on the emptied one.
 */
#define _GNU_SOURCE
#include <pthread.h>
#include <stdio.h>
#include <stdlib.h>
#include <string.h>
#include <unistd.h>
#include <errno.h>
#include "flavor.h"
#include <urcu/rculfhash.h>
#include <urcu/call-rcu.h>
#include "ds.h"
#include "lin.h"

#define NS __attribute__((no_sanitize_thread, noinline))
#define OPS_PER_T 12
#define MAXNODES 64
#define MAXHIST 96
#define NONE (-1L)

extern const struct rcu_flavor_struct F(flavor);

enum { H_ADD = 1, H_ADDU, H_ADDR, H_LOOK, H_DELN, H_REPLN, H_WALK, H_SCAN, H_COUNT, H_RESIZE };
enum { CF_BALLAST = 11, CF_OVERLAP_UPDATE = 0, CF_RESIZE_CONCURRENT = 1, CF_MULTI_REMOVERS = 2, CF_READER_ON_REMOVED = 3, CF_DUP_KEY = 4, CF_LAZY_RESIZE = 5,
       CF_LIN_INCONCLUSIVE = 6, CF_NODE_FREED = 7, CF_UNIQUE_RACE = 8, CF_SOLO_INFLIGHT = 9, CF_SOLO_MID_RESIZE = 10 };

struct mynode { struct cds_lfht_node n; struct rcu_head rh; int key; int id; unsigned long chk; };

static struct cds_lfht *ht;
static int hash_mode, free_mode;

/* ---- bookkeeping (uninstrumented) ---- */
struct hop { struct lin_op op; uint64_t set; int nset; };	/* set/nset: result of walk/scan */
static struct hop hist[MAXHIST]; static int nhist;
static struct mynode *nodes[MAXNODES];
static int node_key[MAXNODES];
static int node_inserted[MAXNODES];	/* insertion took effect (known from the result of the inserting op) */
static int node_owner[MAXNODES];	/* thread that obtained the node through a successful removal, or 0 */
static int owned[16][OPS_PER_T * 2], nowned[16];
static int resizes_active, lazy_seen;

static const char *tname(int t);
static NS unsigned long hash_of(int key)
{
	switch (hash_mode) {
	case 0: return (unsigned long)key;
	case 1: return 5;
	case 2: return ((unsigned long)key << 60) | 1;
	case 4: return ~(unsigned long)key;	/* the last buckets of the table at every size */
	default: return (unsigned long)(key & 1) + 2;
	}
}
static NS int h_begin(int type, long a, long b, long c)
{
	if (nhist >= MAXHIST) ds_bad_case("history overflow");
	struct hop *h = &hist[nhist];
	memset(h, 0, sizeof *h);
	h->op.thr = ds_scen_index(); h->op.type = type; h->op.a = a; h->op.b = b; h->op.c = c; h->op.call = ds_now(); h->op.ret = ~0ul; h->op.r = NONE;
	if (resizes_active && type != H_RESIZE) ds_flag(CF_RESIZE_CONCURRENT);
	if (type == H_RESIZE) { for (int i = 0; i < nhist; i++) if (hist[i].op.ret == ~0ul) ds_flag(CF_RESIZE_CONCURRENT); resizes_active++; }
	ds_note("call #%d %s(%ld,%ld)", nhist, tname(type), a, b);
	return nhist++;
}
static NS int get_nballast(void);
static NS void h_end(int idx, long r, long r2)
{
	struct hop *h = &hist[idx];
	h->op.r = r; h->op.r2 = r2; h->op.ret = ds_now();
	if (h->op.type == H_RESIZE) resizes_active--;
	if (get_nballast()) ds_progress();	/* a completed operation is progress: read-only operations over long chains make no memory write for thousands of steps */
	ds_note("ret  #%d %s -> %ld", idx, tname(h->op.type), r);
}
static NS void h_set(int idx, int id)
{
	struct hop *h = &hist[idx];
	if (id < 0 || id >= MAXNODES) ds_fail("operation returned a pointer that is not a node of this scenario");
	if (h->set >> id & 1) ds_fail("%s returned node %d twice", h->op.type == H_WALK ? "duplicate walk" : "traversal", id);
	h->set |= 1ull << id; h->nset++;
}
/* ballast (cfg ballast N, ballast_hash M): N extra resident nodes with keys of their own (never looked up, removed or replaced by the programs), added
 * by T0 before the threads start as one scheduling step, so that the generated operations run against long bucket chains (M=0: one chain of N nodes
 * with distinct hashes in bucket 0) or a well-filled table (M=1: spread over all buckets), with whatever lazy growth the fill requested still pending.
 * Every traversal must see each of them exactly once; count_nodes includes them. */
#define MAXBALLAST 256
static struct mynode *ballast; static int nballast;
static NS int ballast_index(struct cds_lfht_node *p)
{
	struct mynode *m = caa_container_of(p, struct mynode, n);
	if (!ballast || m < ballast || m >= ballast + nballast) return -1;
	return (int)(m - ballast);
}
static NS int get_nballast(void) { return nballast; }
struct bseen { unsigned char seen[MAXBALLAST]; int n; };
static NS void bseen_reset(struct bseen *b) { memset(b, 0, sizeof *b); }
static NS void bseen_add(struct bseen *b, int i, const char *what) { if (b->seen[i]++) ds_fail("%s returned resident (ballast) node %d twice", what, i); b->n++; }
static NS void bseen_check(struct bseen *b, const char *what) { if (b->n != nballast) for (int i = 0; i < nballast; i++) if (!b->seen[i]) ds_fail("%s missed resident (ballast) node %d, which is in the table for the whole case (%d of %d seen)", what, i, b->n, nballast); }
static NS int node_id_of(struct cds_lfht_node *p)
{
	if (!p) return (int)NONE;
	struct mynode *m = caa_container_of(p, struct mynode, n);
	for (int i = 0; i < MAXNODES; i++) if (nodes[i] == m) return i;
	ds_fail("hash table returned pointer %p which is not a user node of this scenario (bucket/dummy node or garbage)", (void *)p);
}
static NS void mark_inserted(int id) { node_inserted[id] = 1; }
static NS void take_ownership(int id)
{
	int me = ds_scen_index();
	if (node_owner[id]) ds_fail("node %d was obtained by two callers (T%d and T%d): removal ownership is not exclusive", id, node_owner[id] - 1, me);
	node_owner[id] = me + 1;
	owned[me][nowned[me]++] = id;
}
static NS int is_inserted(int id) { return node_inserted[id]; }
static NS struct mynode *get_node(int id) { return nodes[id]; }
static NS void set_node(int id, struct mynode *m, int key) { nodes[id] = m; node_key[id] = key; }

static int match(struct cds_lfht_node *n, const void *key) { return caa_container_of(n, struct mynode, n)->key == *(const int *)key; }

static struct mynode *mk_node(int id, int key)
{
	struct mynode *m = malloc(sizeof *m);
	cds_lfht_node_init(&m->n);
	m->key = key; m->id = id; m->chk = ~(unsigned long)id;
	set_node(id, m, key);
	return m;
}
static void free_cb(struct rcu_head *h) { struct mynode *m = caa_container_of(h, struct mynode, rh); free(m); }
static NS void note_freed(void) { ds_flag(CF_NODE_FREED); }
static void reclaim_now(int id)
{
	struct mynode *m = get_node(id);
	if (free_mode == 2) { F(call_rcu)(&m->rh, free_cb); note_freed(); return; }
	F(synchronize_rcu)();
	free(m);
	note_freed();
}
static NS int pop_owned(void) { int me = ds_scen_index(); return nowned[me] ? owned[me][--nowned[me]] : -1; }
static NS int pop_owned_any(void) { for (int t = 0; t < 16; t++) if (nowned[t]) return owned[t][--nowned[t]]; return -1; }

#ifdef FL_QSBR
# define RLOCK() F(thread_online)()
# define RUNLOCK() F(thread_offline)()
# define QS_ONLINE() F(thread_online)()
# define QS_OFFLINE() F(thread_offline)()
#else
# define QS_ONLINE() do { } while (0)
# define QS_OFFLINE() do { } while (0)
# define RLOCK() F(read_lock)()
# define RUNLOCK() F(read_unlock)()
#endif

static NS void solo_inflight_class(void)
{
	for (int i = 0; i < nhist; i++) if (hist[i].op.ret == ~0ul && hist[i].op.thr != ds_scen_index()) { ds_flag(CF_SOLO_INFLIGHT); if (hist[i].op.type == H_RESIZE) ds_flag(CF_SOLO_MID_RESIZE); }
	if (resizes_active) ds_flag(CF_SOLO_MID_RESIZE);
}
static void removed(int id)
{
	take_ownership(id);
	if (ds_i_am_solo()) return;	/* C17: a grace period would (legitimately) wait for suspended readers */
	if (free_mode) { pop_owned(); reclaim_now(id); }
}

enum { OP_ADD, OP_ADDU, OP_ADDR, OP_LOOK, OP_DEL, OP_DELN, OP_REPL, OP_WALK, OP_SCAN, OP_COUNT, OP_RESIZE, OP_YIELD, OP_GATE, OP_BAD };
static NS int fetch(int t, int i, long *a0, long *a1)
{
	static const char *names[] = { "add", "addu", "addr", "look", "del", "deln", "repl", "walk", "scan", "count", "resize", "yield", "gate" };
	const struct ds_op *o = ds_op(t, i);
	*a0 = o->a[0]; *a1 = o->a[1];
	for (int k = 0; k < OP_BAD; k++) if (!strcmp(o->name, names[k])) return k;
	ds_bad_case("lfht: unknown op %s", o->name);
}

static NS const char *names_of_op(int op) { static const char *n[] = { "cds_lfht_add", "cds_lfht_add_unique", "cds_lfht_add_replace", "cds_lfht_lookup", "lookup + cds_lfht_del", "cds_lfht_del", "lookup + cds_lfht_replace", "duplicate walk", "full traversal", "cds_lfht_count_nodes", "resize", "yield", "gate" }; return n[op]; }
static void run_program(int t)
{
	int n = ds_nops(t);
	for (int i = 0; i < n && i < OPS_PER_T; i++) {
		long a0, a1;
		int op = fetch(t, i, &a0, &a1);
		int id = t * OPS_PER_T + i, key = (int)a0, h;
		unsigned long hv = hash_of(key);
		struct cds_lfht_iter it;
		struct cds_lfht_node *r;
		ds_op_begin(i);
		if (op == OP_GATE) { ds_solo_gate(); solo_inflight_class(); continue; }
		ds_solo_op_begin();
		switch (op) {
		case OP_ADD: {
			struct mynode *m = mk_node(id, key);
			RLOCK(); h = h_begin(H_ADD, key, id, 0);
			cds_lfht_add(ht, hv, &m->n);
			h_end(h, 0, 0); mark_inserted(id); RUNLOCK();
			break;
		}
		case OP_ADDU: {
			struct mynode *m = mk_node(id, key);
			RLOCK(); h = h_begin(H_ADDU, key, id, 0);
			r = cds_lfht_add_unique(ht, hv, match, &key, &m->n);
			int rid = node_id_of(r);
			h_end(h, rid, 0); if (rid == id) mark_inserted(id); RUNLOCK();
			if (rid != id) free(m);	/* never inserted: private */
			break;
		}
		case OP_ADDR: {
			struct mynode *m = mk_node(id, key);
			RLOCK(); h = h_begin(H_ADDR, key, id, 0);
			r = cds_lfht_add_replace(ht, hv, match, &key, &m->n);
			int rid = node_id_of(r);
			h_end(h, rid, 0); mark_inserted(id); RUNLOCK();
			if (rid >= 0) removed(rid);
			break;
		}
		case OP_LOOK: {
			RLOCK(); h = h_begin(H_LOOK, key, 0, 0);
			cds_lfht_lookup(ht, hv, match, &key, &it);
			r = cds_lfht_iter_get_node(&it);
			int rid = node_id_of(r);
			if (r) { struct mynode *m = caa_container_of(r, struct mynode, n); if (uatomic_load(&m->chk) != ~(unsigned long)rid) ds_fail("lookup returned node %d with a corrupted payload", rid); }
			h_end(h, rid, 0); RUNLOCK();
			break;
		}
		case OP_DEL: {
			RLOCK(); h = h_begin(H_LOOK, key, 0, 0);
			cds_lfht_lookup(ht, hv, match, &key, &it);
			r = cds_lfht_iter_get_node(&it);
			int rid = node_id_of(r);
			h_end(h, rid, 0);
			int rc = -1;
			if (r) { h = h_begin(H_DELN, rid, 0, 0); rc = cds_lfht_del(ht, r); h_end(h, rc, 0); }
			RUNLOCK();
			if (r && rc == 0) removed(rid);
			break;
		}
		case OP_DELN: {
			int target = (int)a0 * OPS_PER_T + (int)a1;
			if (target < 0 || target >= MAXNODES || !is_inserted(target)) break;	/* only nodes that have been added may be passed to del */
			if (free_mode) break;		/* with immediate reclamation a stale node pointer must not be used by non-owners */
			RLOCK(); h = h_begin(H_DELN, target, 0, 0);
			int rc = cds_lfht_del(ht, &get_node(target)->n);
			h_end(h, rc, 0); RUNLOCK();
			if (rc == 0) removed(target);
			break;
		}
		case OP_REPL: {
			struct mynode *m = mk_node(id, key);
			RLOCK(); h = h_begin(H_LOOK, key, 0, 0);
			cds_lfht_lookup(ht, hv, match, &key, &it);
			r = cds_lfht_iter_get_node(&it);
			int rid = node_id_of(r);
			h_end(h, rid, 0);
			int rc = -1;
			if (r) { h = h_begin(H_REPLN, rid, id, 0); rc = cds_lfht_replace(ht, &it, hv, match, &key, &m->n); h_end(h, rc, 0); if (rc == 0) mark_inserted(id); }
			RUNLOCK();
			if (r && rc == 0) removed(rid); else free(m);
			break;
		}
		case OP_WALK: {
			RLOCK(); h = h_begin(H_WALK, key, 0, 0);
			int guard = 0;
			for (cds_lfht_lookup(ht, hv, match, &key, &it); (r = cds_lfht_iter_get_node(&it)) != NULL; cds_lfht_next_duplicate(ht, match, &key, &it)) {
				h_set(h, node_id_of(r));
				if (++guard > 4 * MAXNODES) ds_fail("duplicate walk does not terminate");
			}
			h_end(h, 0, 0); RUNLOCK();
			break;
		}
		case OP_SCAN: {
			RLOCK(); h = h_begin(H_SCAN, 0, 0, 0);
			int guard = 0;
			struct bseen bs; bseen_reset(&bs);
			for (cds_lfht_first(ht, &it); (r = cds_lfht_iter_get_node(&it)) != NULL; cds_lfht_next(ht, &it)) {
				int bi = ballast_index(r);
				ds_progress();
				if (bi >= 0) bseen_add(&bs, bi, "traversal"); else h_set(h, node_id_of(r));
				if (++guard > 4 * MAXNODES + 2 * MAXBALLAST) ds_fail("traversal does not terminate");
			}
			bseen_check(&bs, "traversal");
			h_end(h, 0, 0); RUNLOCK();
			break;
		}
		case OP_COUNT: {
			long ab, aa; unsigned long cnt;
			RLOCK(); h = h_begin(H_COUNT, 0, 0, 0);
			cds_lfht_count_nodes(ht, &ab, &cnt, &aa);
			h_end(h, (long)cnt - get_nballast(), 0); RUNLOCK();
			break;
		}
		case OP_RESIZE:
			/* qsbr: README "Interaction with mutexes": an online thread counts as inside a read-side critical section, and cds_lfht_resize must
			 * not be called from one, so the caller is offline here (see known finding C07/qsbr-resize in DESIGN.md) */
			h = h_begin(H_RESIZE, a0, 0, 0);
			cds_lfht_resize(ht, (unsigned long)a0);
			h_end(h, 0, 0);
			break;
		case OP_YIELD: ds_yield(); break;
		}
		if (op != OP_YIELD && op != OP_RESIZE) ds_solo_op_end(names_of_op(op), ds_cfg("solo_bound", 4000));
	}
	ds_op_begin(-1);
}

static void *thread_main(void *arg)
{
	int t = (int)(long)arg;
	F(register_thread)();
#ifdef FL_QSBR
	F(thread_offline)();
#endif
#ifdef FL_BP
	RLOCK(); RUNLOCK();	/* bp registers a thread on its first use */
#endif
	run_program(t);
	F(unregister_thread)();	/* freemode 0: removed nodes are reclaimed by T0 after all threads have finished (deln may still target them) */
	return NULL;
}

/* ---- oracles ---- */
static uint64_t keymask[16];
static int spec_apply(const struct lin_op *op, struct lin_state *s, void *ctx)
{
	(void)ctx;
	uint64_t st = s->w[0];
	switch (op->type) {
	case H_ADD: s->w[0] = st | 1ull << op->b; return 1;
	case H_ADDU:
		if (op->r == op->b) { if (st & keymask[op->a]) return 0; s->w[0] = st | 1ull << op->b; return 1; }
		if (op->r < 0) return 0;
		return (st >> op->r & 1) && node_key[op->r] == op->a;
	case H_ADDR:
		if (op->r < 0) { if (st & keymask[op->a]) return 0; s->w[0] = st | 1ull << op->b; return 1; }
		if (!(st >> op->r & 1) || node_key[op->r] != op->a) return 0;
		s->w[0] = (st & ~(1ull << op->r)) | 1ull << op->b; return 1;
	case H_LOOK:
		if (op->r < 0) return !(st & keymask[op->a]);
		return (st >> op->r & 1) && node_key[op->r] == op->a;
	case H_DELN:
		if (op->r == 0) { if (!(st >> op->a & 1)) return 0; s->w[0] = st & ~(1ull << op->a); return 1; }
		return !(st >> op->a & 1);
	case H_REPLN:
		if (op->r == 0) { if (!(st >> op->a & 1)) return 0; s->w[0] = (st & ~(1ull << op->a)) | 1ull << op->b; return 1; }
		return !(st >> op->a & 1);
	}
	return 1;
}
static const char *tname(int t) { static const char *n[] = { "?", "add", "add_unique", "add_replace", "lookup", "del", "replace", "walk", "scan", "count", "resize" }; return n[t]; }

static NS void check_history(uint64_t *final_state)
{
	/* presence intervals */
	unsigned long ins_call[MAXNODES], ins_ret[MAXNODES], rem_call[MAXNODES], rem_ret[MAXNODES]; int has_ins[MAXNODES] = { 0 }, has_rem[MAXNODES] = { 0 };
	for (int i = 0; i < nhist; i++) {
		struct lin_op *o = &hist[i].op;
		int ins = -1, rem = -1;
		switch (o->type) {
		case H_ADD: ins = (int)o->b; break;
		case H_ADDU: if (o->r == o->b) ins = (int)o->b; break;
		case H_ADDR: ins = (int)o->b; if (o->r >= 0) rem = (int)o->r; break;
		case H_DELN: if (o->r == 0) rem = (int)o->a; break;
		case H_REPLN: if (o->r == 0) { rem = (int)o->a; ins = (int)o->b; } break;
		}
		if (ins >= 0) { has_ins[ins] = 1; ins_call[ins] = o->call; ins_ret[ins] = o->ret; }
		if (rem >= 0) {
			if (has_rem[rem]) ds_fail("node %d was obtained by two removal operations (%s and an earlier one)", rem, tname(o->type));
			has_rem[rem] = 1; rem_call[rem] = o->call; rem_ret[rem] = o->ret;
		}
	}
	for (int k = 0; k < 16; k++) keymask[k] = 0;
	for (int n = 0; n < MAXNODES; n++) if (nodes[n]) keymask[node_key[n] & 15] |= 1ull << n;
	/* class flags from the history */
	for (int i = 0; i < nhist; i++) for (int j = i + 1; j < nhist; j++) {
		struct lin_op *a = &hist[i].op, *b = &hist[j].op;
		if (a->thr == b->thr || a->call > b->ret || b->call > a->ret) continue;
		int ua = a->type != H_LOOK && a->type < H_WALK, ub = b->type != H_LOOK && b->type < H_WALK;
		if ((ua || ub) && a->type < H_RESIZE && b->type < H_RESIZE) ds_flag(CF_OVERLAP_UPDATE);
		if ((a->type == H_DELN || a->type == H_REPLN) && (b->type == H_DELN || b->type == H_REPLN) && a->a == b->a) ds_flag(CF_MULTI_REMOVERS);
		if ((a->type == H_ADDU || a->type == H_ADDR) && (b->type == H_ADDU || b->type == H_ADDR) && a->a == b->a) ds_flag(CF_UNIQUE_RACE);
		if ((a->type >= H_WALK && a->type <= H_SCAN && ub) || (b->type >= H_WALK && b->type <= H_SCAN && ua)) ds_flag(CF_READER_ON_REMOVED);
	}
	/* linearizability of the point operations */
	struct lin_op ops[LIN_MAXOPS]; int n = 0, too_many = 0;
	for (int i = 0; i < nhist; i++) {
		if (hist[i].op.type >= H_WALK) continue;
		if (n >= LIN_MAXOPS) { too_many = 1; break; }
		ops[n++] = hist[i].op;
	}
	struct lin_state init = { { 0 } }, fin = { { 0 } };
	int r = too_many ? -1 : lin_check(ops, n, &init, spec_apply, NULL, &fin);
	if (r == 0) {
		char buf[900]; size_t o = 0;
		for (int i = 0; i < n && o + 60 < sizeof buf; i++)
			o += snprintf(buf + o, sizeof buf - o, "[E%d %s(%ld%s%ld)=%ld @%lu-%lu] ", ops[i].thr, tname(ops[i].type), ops[i].a, ops[i].type == H_DELN ? "" : ",n", ops[i].type == H_DELN ? 0 : ops[i].b, ops[i].r, ops[i].call, ops[i].ret);
		ds_fail("history is not linearizable against the multiset-per-key specification: %s", buf);
	}
	if (r < 0) ds_flag(CF_LIN_INCONCLUSIVE);
	/* which keys are managed with unique insertion only */
	int plain_add_seen[16] = { 0 }, unique_add_seen[16] = { 0 };
	for (int i = 0; i < nhist; i++) {
		struct lin_op *o = &hist[i].op;
		if (o->type == H_ADD && o->a >= 0 && o->a < 16) plain_add_seen[o->a] = 1;
		if ((o->type == H_ADDU || o->type == H_ADDR) && o->a >= 0 && o->a < 16) unique_add_seen[o->a] = 1;
		if (o->type == H_REPLN && o->b >= 0 && o->b < MAXNODES && node_key[o->b] >= 0 && node_key[o->b] < 16) unique_add_seen[node_key[o->b]] |= 0;
	}
	/* walks, traversals, count: interval predicates */
	for (int i = 0; i < nhist; i++) {
		struct hop *h = &hist[i];
		if (h->op.type != H_WALK && h->op.type != H_SCAN && h->op.type != H_COUNT) continue;
		unsigned long a = h->op.call, b = h->op.ret;
		uint64_t def = 0, pos = 0;
		for (int nd = 0; nd < MAXNODES; nd++) {
			if (!has_ins[nd]) continue;
			if (h->op.type == H_WALK && node_key[nd] != h->op.a) continue;
			if (ins_ret[nd] < a && (!has_rem[nd] || rem_call[nd] > b)) def |= 1ull << nd;
			if (ins_call[nd] < b && (!has_rem[nd] || rem_ret[nd] > a)) pos |= 1ull << nd;
		}
		if (h->op.type == H_COUNT) {
			int lo = __builtin_popcountll(def), hi = __builtin_popcountll(pos);
			if (h->op.r < lo || h->op.r > hi) ds_fail("cds_lfht_count_nodes returned %ld while between %d and %d nodes were present during the call", h->op.r, lo, hi);
			continue;
		}
		/* C06: a key that is only ever inserted with add_unique / add_replace is never returned twice by one walk or traversal, replacement being atomic */
		for (int k = 0; k < 16; k++) {
			if (plain_add_seen[k] || !unique_add_seen[k]) continue;
			if (h->op.type == H_WALK && k != h->op.a) continue;
			uint64_t got = h->set & keymask[k];
			if (got & (got - 1))
				ds_fail("%s(@%lu-%lu) returned two nodes (%d and %d) with key %d, which is only ever inserted with add_unique/add_replace", tname(h->op.type), a, b, __builtin_ctzll(got), 63 - __builtin_clzll(got), k);
		}
		if (def & ~h->set) ds_fail("%s(@%lu-%lu) missed node %d which was in the table for the whole duration of the call", tname(h->op.type), a, b, __builtin_ctzll(def & ~h->set));
		if (h->set & ~pos) ds_fail("%s(@%lu-%lu) returned node %d which was not in the table at any moment during the call", tname(h->op.type), a, b, __builtin_ctzll(h->set & ~pos));
	}
	/* final contents are determined: inserted minus successfully removed */
	uint64_t f = 0;
	for (int nd = 0; nd < MAXNODES; nd++) if (has_ins[nd] && !has_rem[nd]) f |= 1ull << nd;
	*final_state = f;
}

static int tids[8];
static NS void set_ballast(struct mynode *b, int n) { ballast = b; nballast = n; }
static void ballast_fill(void)
{
	int n = (int)ds_cfg("ballast", 0), mode = (int)ds_cfg("ballast_hash", 0);
	if (n <= 0) return;
	if (n > MAXBALLAST) ds_bad_case("too much ballast");
	struct mynode *b = calloc((size_t)n, sizeof *b);
	set_ballast(b, n);
	ds_flag(CF_BALLAST);
	ds_bulk(1);
	RLOCK();
	for (int i = 0; i < n; i++) {
		cds_lfht_node_init(&b[i].n);
		b[i].key = 100000 + i; b[i].id = -1; b[i].chk = 0;
		cds_lfht_add(ht, mode == 0 ? (unsigned long)(i + 1) << 16 : (unsigned long)(i + 1) * 0x9E3779B1ul, &b[i].n);
	}
	RUNLOCK();
	ds_bulk(0);
}
static void scenario(void)
{
	int np = ds_prog_threads();
	static const struct cds_lfht_mm_type *mms[] = { &cds_lfht_mm_order, &cds_lfht_mm_chunk, &cds_lfht_mm_mmap };
	int mm = (int)ds_cfg("mm", 0), flags = (int)ds_cfg("flags", 0);
	unsigned long init = 1UL << ds_cfg("init_order", 0), mn = 1UL << ds_cfg("min_order", 0), mx = 1UL << ds_cfg("max_order", 4);
	hash_mode = (int)ds_cfg("hash", 0); free_mode = (int)ds_cfg("freemode", 0);
	FL_SET_MEMBARRIER((int)ds_cfg("membarrier", 1));
	F(register_thread)();
#ifdef FL_QSBR
	F(thread_offline)();
#endif
	static pthread_attr_t rattr; pthread_attr_init(&rattr);
	ht = _cds_lfht_new(init, mn, mx, flags, mms[mm % 3], &F(flavor), ds_cfg("attr", 1) ? &rattr : NULL);
	if (!ht) ds_bad_case("cds_lfht_new refused the configuration");
	ballast_fill();
	run_program(0);
	for (int t = 1; t < np; t++) tids[t] = ds_spawn(thread_main, (void *)(long)t);
	for (int t = 1; t < np; t++) ds_join(tids[t]);
	ds_op_begin(99);
	uint64_t fin;
	check_history(&fin);
	/* quiescent state: traversal = exactly the final contents */
	{
		struct cds_lfht_iter it; struct cds_lfht_node *r; uint64_t seen = 0;
		RLOCK();
		struct bseen bs; bseen_reset(&bs);
		for (cds_lfht_first(ht, &it); (r = cds_lfht_iter_get_node(&it)) != NULL; cds_lfht_next(ht, &it)) {
			int bi = ballast_index(r);
			if (bi >= 0) { bseen_add(&bs, bi, "final traversal"); continue; }
			int id = node_id_of(r);
			if (seen >> id & 1) ds_fail("final traversal returned node %d twice", id);
			seen |= 1ull << id;
		}
		RUNLOCK();
		bseen_check(&bs, "final traversal");
		if (seen != fin) ds_fail("final traversal returned node set %llx, the history determines %llx", (unsigned long long)seen, (unsigned long long)fin);
		if (fin || get_nballast()) {
			int rc = cds_lfht_destroy(ht, NULL);
			if (rc == 0) ds_fail("cds_lfht_destroy succeeded on a table that still holds %d nodes", __builtin_popcountll(fin) + get_nballast());
		}
		RLOCK();
		if (get_nballast()) {
			ds_bulk(1);
			for (int i = 0; i < nballast; i++) { int rc = cds_lfht_del(ht, &ballast[i].n); if (rc) { ds_bulk(0); ds_fail("final cds_lfht_del of resident (ballast) node %d returned %d", i, rc); } }
			ds_bulk(0);
		}
		for (int id = 0; id < MAXNODES; id++) if (fin >> id & 1) {
			int rc = cds_lfht_del(ht, &get_node(id)->n);
			if (rc) ds_fail("final cds_lfht_del of resident node %d returned %d", id, rc);
		}
		RUNLOCK();
	}
	F(synchronize_rcu)();
	{ int id; while ((id = pop_owned_any()) >= 0) free(get_node(id)); }
	for (int id = 0; id < MAXNODES; id++) if (fin >> id & 1) free(get_node(id));
	int rc = cds_lfht_destroy(ht, NULL);
	if (rc) ds_fail("cds_lfht_destroy of the emptied table returned %d", rc);
	if (free_mode == 2) F(barrier)();
	/* let a queued destroy / lazy resize worker finish so that late accesses to released memory are observed */
	for (int i = 0; i < 40; i++) ds_yield();
	F(unregister_thread)();
	ds_done();
}
DS_SCENARIO(FLSCEN("lfht"), scenario)
