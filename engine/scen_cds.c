/*
 * Scenario "cds_<flavor>": concurrent queues and stacks.  Serves C10 (wfcqueue, legacy wfqueue), C11 (wfstack, lfstack, legacy
 * rculfstack), C12 (rculfqueue) and the queue/stack part of C17.   DS_PER_FLAVOR
 *
 * The scenario calls the *exported* library functions (no _LGPL_SOURCE), so both the wrappers in src/<x>.c and the static headers
 * they instantiate are the code under test.
 *
 * cfg: kind (0 wfcq, 1 wfq legacy, 2 wfs, 3 lfs, 4 rculfs legacy, 5 lfq)
 *      sync (0 mutual exclusion by the container's lock, 1 single consumer - enforced by the generator, 2 RCU: removal inside a read-side
 *            section, nodes recycled/freed only after a grace period)
 *      freemode (0 keep removed nodes until the end, 1 free at once [sync 0/1] / after synchronize_rcu [sync 2], 2 call_rcu [sync 2])
 *      reuse (1: a thread re-inserts the node memory it removed earlier - after a grace period under sync 2)
 * Items: every insertion creates item id 1..15 (payload id + checksum written with plain stores before the insertion).
 *   enq q                  enqueue / push a new item on container q
 *   deq q v                dequeue / pop; v selects the API variant (0 convenience-locked blocking, 1 __blocking, 2 __nonblocking,
 *                          3 __with_state_blocking, 4 __with_state_nonblocking, 5 convenience with_state)
 *   splice d s v           wfcq: v 0 cds_wfcq_splice_blocking, 1 __cds_wfcq_splice_blocking, 2 __cds_wfcq_splice_nonblocking
 *   iter q v               wfcq: first/next iteration, v 0 blocking, 1 nonblocking
 *   popall q v w           stacks: v 0 *_pop_all_blocking, 1 __*_pop_all; w 0 blocking iteration, 1 nonblocking (wfs) of the returned chain
 *   empty q                cds_wfcq_empty / cds_wfs_empty / cds_lfs_empty
 *   gate                   C17: block until the freeze point; the operations after it run solo and must not wait
 *   yield
 * T0's operations run before the other threads are spawned; after they are joined T0 drains every container.
 *
 * Oracle: Wing-Gong linearizability of the complete call/return history (including the final drain) against a sequential FIFO / LIFO
 * specification with all documented results (enqueue/push "was non-empty", NULL only when empty, STATE_LAST, empty(), iteration and
 * pop_all contents in order, splice return codes; a splice is two atomic steps: drain source, then append to destination);
 * WOULDBLOCK only while another operation on that container is in flight; payload checksum; shadow heap.
 */
#define _GNU_SOURCE
#undef _LGPL_SOURCE
#include <pthread.h>
#include <stdio.h>
#include <stdlib.h>
#include <string.h>
#include <unistd.h>
#include <errno.h>
#include "flavor.h"
#include <urcu/call-rcu.h>
#include <urcu/wfcqueue.h>
#include <urcu/wfqueue.h>
#include <urcu/wfstack.h>
#include <urcu/lfstack.h>
#include <urcu/rculfstack.h>
#include <urcu/rculfqueue.h>
#include "ds.h"
#include "lin.h"

#define NS __attribute__((no_sanitize_thread, noinline))
#define MAXQ 2
#define MAXITEM 15
#define MAXHIST 60
#define MAXTH 8

enum { K_WFCQ, K_WFQ, K_WFS, K_LFS, K_RCULFS, K_LFQ };
enum { S_LOCK, S_SINGLE, S_RCU };
enum { L_INS = 1, L_REM, L_EMPTY, L_SNAP, L_POPALL, L_SPL_DRAIN, L_SPL_APPEND, L_DESTROY };
enum { CF_REM_OVERLAP_INS = 0, CF_WOULDBLOCK = 1, CF_LAST = 2, CF_SPLICE_OVERLAP = 3, CF_LIN_INCONCLUSIVE = 4, CF_RECYCLED = 5, CF_POPALL_OVERLAP = 6,
       CF_REM_OVERLAP_REM = 7, CF_SOLO_RAN = 8, CF_SOLO_INFLIGHT = 9, CF_NULL_SEEN = 10, CF_FREED = 11, CF_CROWD = 12, CF_THAWED = 13 };
#define R_NULL 0L
#define R_WOULDBLOCK (-2L)
#define R_NA (-1L)

#ifdef FL_QSBR
# define RLOCK() F(thread_online)()
# define RUNLOCK() F(thread_offline)()
#else
# define RLOCK() F(read_lock)()
# define RUNLOCK() F(read_unlock)()
#endif

struct item {
	union {
		struct cds_wfcq_node cq; struct cds_wfq_node wq; struct cds_wfs_node ws; struct cds_lfs_node ls;
		struct cds_lfs_node_rcu lr; struct cds_lfq_node_rcu lq;
	} n;
	struct rcu_head rh;
	unsigned long id, chk;
};

static int kind, sync_mode, free_mode, reuse;
static struct { struct cds_wfcq_head h; struct cds_wfcq_tail t; } cq[MAXQ];
static struct cds_wfq_queue wq[MAXQ];
static struct cds_wfs_stack ws[MAXQ];
static struct cds_lfs_stack ls[MAXQ];
static struct cds_lfs_stack_rcu lr[MAXQ];
static struct cds_lfq_queue_rcu lq[MAXQ];

/* ---- bookkeeping (uninstrumented) ---- */
static struct lin_op hist[MAXHIST]; static int nhist;
static int next_item;
static int pend_tid[MAXHIST];	/* 1 + engine thread id if stores of the operation were still buffered when it returned */
static struct item *kept[64]; static int nkept;
static struct item *stash[MAXTH][16]; static int nstash[MAXTH];
static unsigned long solo_steps0, solo_yields0; static int solo_mode[MAXTH];

static const char *tname(int t) { static const char *n[] = { "?", "insert", "remove", "empty", "iterate", "pop_all", "splice[drain src]", "splice[append dst]", "destroy" }; return n[t]; }
static NS int h_begin(int type, long a, long b)
{
	if (nhist >= MAXHIST) ds_bad_case("history overflow");
	struct lin_op *h = &hist[nhist];
	memset(h, 0, sizeof *h);
	h->thr = ds_scen_index(); h->type = type; h->a = a; h->b = b; h->call = ds_now(); h->ret = ~0ul; h->r = R_NA; h->r2 = R_NA;
	ds_note("call #%d %s(q%ld, %ld)", nhist, tname(type), a, b);
	return nhist++;
}
static NS void h_end(int idx, long r, long r2)
{
	struct lin_op *h = &hist[idx];
	h->r = r; h->r2 = r2; h->ret = ds_now();
	pend_tid[idx] = ds_sb_pending() ? 1 + ds_self() : 0;
	if (r == R_WOULDBLOCK) ds_flag(CF_WOULDBLOCK);
	if (h->type == L_REM && r == R_NULL) ds_flag(CF_NULL_SEEN);
	if (h->type == L_REM && r2 == 1) ds_flag(CF_LAST);
	ds_note("ret  #%d %s -> %ld (%ld)", idx, tname(h->type), r, r2);
}
static NS int h_append_phase(int drain_idx, long dst, long code)
{
	if (nhist >= MAXHIST) ds_bad_case("history overflow");
	struct lin_op *h = &hist[nhist];
	*h = hist[drain_idx];
	h->type = L_SPL_APPEND; h->a = dst; h->r = code; h->dep = drain_idx + 1;
	return nhist++;
}
static NS long new_item_id(void) { return next_item < MAXITEM ? ++next_item : 0; }
static NS void keep(struct item *it) { if (nkept < 64) kept[nkept++] = it; }
static NS struct item *pop_kept(void) { return nkept ? kept[--nkept] : NULL; }
static NS struct item *stash_pop(void) { int me = ds_scen_index(); return nstash[me] ? stash[me][--nstash[me]] : NULL; }
static NS void stash_push(struct item *it) { int me = ds_scen_index(); if (nstash[me] < 16) stash[me][nstash[me]++] = it; else keep(it); }
static NS void note(int bit) { ds_flag(bit); }

/* nibble sequences: element 0 in the low nibble, ids 1..15, 0 terminates */
static NS int sq_len(uint64_t s) { int n = 0; while (s) { n++; s >>= 4; } return n; }
static NS uint64_t sq_push_back(uint64_t s, long id) { return s | (uint64_t)id << (4 * sq_len(s)); }
static NS uint64_t sq_push_front(uint64_t s, long id) { return s << 4 | (uint64_t)id; }
static NS uint64_t sq_concat(uint64_t a, uint64_t b) { return a | b << (4 * sq_len(a)); }
static NS int sq_is_prefix(uint64_t p, uint64_t s) { int n = sq_len(p); return n == 16 ? p == s : (s & ((1ull << (4 * n)) - 1)) == p; }
static NS void sq_print(char *b, size_t n, uint64_t s) { size_t o = 0; b[0] = 0; o += snprintf(b, n, "<"); while (s && o + 4 < n) { o += snprintf(b + o, n - o, "%d%s", (int)(s & 15), s >> 4 ? "," : ""); s >>= 4; } snprintf(b + o, n - o, ">"); }

static NS int is_fifo(void) { return kind == K_WFCQ || kind == K_WFQ || kind == K_LFQ; }

/* sequential specification.  state: w[0], w[1] = container contents (front first); w[2 + thr] = chain held by thread thr's in-flight splice */
static NS int spec_apply(const struct lin_op *op, struct lin_state *s, void *ctx)
{
	(void)ctx;
	uint64_t *c = &s->w[op->a];
	int len = sq_len(*c);
	switch (op->type) {
	case L_INS:
		if (op->r != R_NA && !!op->r != (len > 0)) return 0;
		if (len >= 15) return 0;
		*c = is_fifo() ? sq_push_back(*c, op->b) : sq_push_front(*c, op->b);
		return 1;
	case L_REM:
		if (op->r == R_WOULDBLOCK) return 1;
		if (op->r == R_NULL) return len == 0;
		if ((long)(*c & 15) != op->r) return 0;
		*c >>= 4;
		if (op->r2 != R_NA && op->r2 != (*c == 0)) return 0;
		return 1;
	case L_EMPTY:
		return !!op->r == (len == 0);
	case L_SNAP:
		return op->r2 ? (uint64_t)op->r == *c : sq_is_prefix((uint64_t)op->r, *c);
	case L_POPALL:
		if ((uint64_t)op->r != *c) return 0;
		*c = 0;
		return 1;
	case L_SPL_DRAIN:
		if (op->r == CDS_WFCQ_RET_WOULDBLOCK) return 1;
		if (op->r == CDS_WFCQ_RET_SRC_EMPTY) return len == 0;
		if (len == 0) return 0;
		s->w[2 + op->thr] = *c; *c = 0;
		return 1;
	case L_SPL_APPEND:
		if ((op->r == CDS_WFCQ_RET_DEST_NON_EMPTY) != (len > 0)) return 0;
		if (len + sq_len(s->w[2 + op->thr]) > 15) return 0;
		*c = sq_concat(*c, s->w[2 + op->thr]); s->w[2 + op->thr] = 0;
		return 1;
	case L_DESTROY:
		return (op->r == 0) == (len == 0);
	}
	return 1;
}

static NS int overlaps(const struct lin_op *a, const struct lin_op *b) { return a->call <= b->ret && b->call <= a->ret; }
/* "in flight" for the WOULDBLOCK rule: until the operation's last store has left the caller's store buffer (x86-TSO) */
static NS int inflight_during(int j, const struct lin_op *a)
{
	const struct lin_op *b = &hist[j];
	unsigned long ret = b->ret;
	if (pend_tid[j] && ret != ~0ul) ret = ds_sb_empty_after(pend_tid[j] - 1, ret);
	return a->call <= ret && b->call <= a->ret;
}
static NS int touches(const struct lin_op *o, long q)
{
	if (o->type == L_SPL_DRAIN) return o->a == q || (o->b == q && o->r != CDS_WFCQ_RET_SRC_EMPTY && o->r != CDS_WFCQ_RET_WOULDBLOCK);
	return o->a == q;
}
static NS void dump_history(char *buf, size_t n)
{
	size_t o = 0; buf[0] = 0;
	for (int i = 0; i < nhist && o + 80 < n; i++) {
		struct lin_op *h = &hist[i];
		char sq[64] = "";
		if (h->type == L_SNAP || h->type == L_POPALL) sq_print(sq, sizeof sq, (uint64_t)h->r);
		o += snprintf(buf + o, n - o, "[T%d %s q%ld", h->thr, tname(h->type), h->a);
		if (h->type == L_INS) o += snprintf(buf + o, n - o, " item %ld -> %ld", h->b, h->r);
		else if (sq[0]) o += snprintf(buf + o, n - o, " -> %s%s", sq, h->type == L_SNAP && !h->r2 ? " WOULDBLOCK" : "");
		else if (h->r == R_WOULDBLOCK && h->type == L_REM) o += snprintf(buf + o, n - o, " -> WOULDBLOCK");
		else o += snprintf(buf + o, n - o, " -> %ld%s", h->r, h->type == L_REM && h->r2 == 1 ? " LAST" : "");
		o += snprintf(buf + o, n - o, " @%lu-%lu] ", h->call, h->ret);
	}
}
static NS void check_history(void)
{
	static char buf[3000];
	/* classes + WOULDBLOCK side condition */
	for (int i = 0; i < nhist; i++) {
		struct lin_op *a = &hist[i];
		if (a->type == L_SPL_APPEND) continue;
		int wb = (a->type == L_REM && a->r == R_WOULDBLOCK) || (a->type == L_SNAP && !a->r2) || (a->type == L_SPL_DRAIN && a->r == CDS_WFCQ_RET_WOULDBLOCK) ||
			 (a->type == L_POPALL && a->c == 1);
		int inflight = 0;
		for (int j = 0; j < nhist; j++) {
			struct lin_op *b = &hist[j];
			long q = a->a;
			/* an enqueue issued on the OTHER queue is in flight on this one too if a splice moved its half-linked node here */
			if (wb && i != j && b->type == L_INS && b->a != q && b->thr != a->thr && (overlaps(a, b) || inflight_during(j, a))) {
				for (int k = 0; k < nhist; k++) {
					struct lin_op *sp = &hist[k];
					if (sp->type == L_SPL_DRAIN && sp->a == b->a && sp->b == q && (sp->r == CDS_WFCQ_RET_DEST_EMPTY || sp->r == CDS_WFCQ_RET_DEST_NON_EMPTY) && sp->ret >= b->call && sp->call <= a->ret) inflight = 1;
				}
			}
			if (i == j || b->type == L_SPL_APPEND || b->thr == a->thr || !touches(b, q)) continue;
			if (!overlaps(a, b)) {
				if (wb && inflight_during(j, a) && (b->type == L_INS || (b->type == L_SPL_DRAIN && b->b == q))) inflight = 1;
				continue;
			}
			int b_ins = b->type == L_INS || (b->type == L_SPL_DRAIN && b->b == q);
			int b_rem = b->type == L_REM || b->type == L_POPALL || (b->type == L_SPL_DRAIN && b->a == q);
			if (a->type == L_REM && b_ins) ds_flag(CF_REM_OVERLAP_INS);
			if (a->type == L_REM && b_rem) ds_flag(CF_REM_OVERLAP_REM);
			if (a->type == L_SPL_DRAIN && (b_ins || b_rem)) ds_flag(CF_SPLICE_OVERLAP);
			if (a->type == L_POPALL && (b_ins || b_rem)) ds_flag(CF_POPALL_OVERLAP);
			if (kind == K_WFCQ ? b_ins : (b_ins || b_rem)) inflight = 1;
		}
		if (wb && !inflight) {
			dump_history(buf, sizeof buf);
			ds_fail("operation #%d (%s on container %ld by T%d) returned WOULDBLOCK although no %s on that container was in flight during the call: %s",
				i, tname(a->type), a->a, a->thr, kind == K_WFCQ ? "enqueue/splice-append" : "other operation", buf);
		}
	}
	struct lin_state init = { { 0 } };
	int r = lin_check(hist, nhist, &init, spec_apply, NULL, NULL);
	if (r == 0) {
		dump_history(buf, sizeof buf);
		ds_fail("history is not linearizable against the sequential %s specification: %s", is_fifo() ? "FIFO" : "LIFO", buf);
	}
	if (r < 0) ds_flag(CF_LIN_INCONCLUSIVE);
}

/* ---- item handling ---- */
static NS long item_check(void *node, const char *what)
{
	struct item *it = node;
	int hs = ds_heap_state(it);
	if (hs != 1) ds_fail("%s returned pointer %p which is not a live user node (heap state %d): internal/dummy node, freed node or garbage", what, node, hs);
	if (it->chk != ~it->id || it->id < 1 || it->id > MAXITEM)
		ds_fail("%s returned node %p with inconsistent payload id=%lx chk=%lx (contents written before the insertion are not visible, or not a user node)", what, node, it->id, it->chk);
	return (long)it->id;
}
static void free_cb(struct rcu_head *h) { free(caa_container_of(h, struct item, rh)); }
static NS int i_am_solo(void) { return solo_mode[ds_scen_index()] && ds_solo_active(); }
static void dispose(struct item *it)
{
	/* the remover owns the node now */
	if (i_am_solo()) { keep(it); return; }	/* C17: a grace period would (legitimately) wait for suspended readers */
	if (sync_mode == S_RCU) {
		if (free_mode == 2 && !reuse) { F(call_rcu)(&it->rh, free_cb); note(CF_FREED); return; }
		if (free_mode == 0 && !reuse) { keep(it); return; }
		F(synchronize_rcu)();
	} else if (free_mode == 0 && !reuse) { keep(it); return; }
	if (reuse) { stash_push(it); return; }
	it->id = 0xdead; it->chk = 0xdead;
	free(it);
	note(CF_FREED);
}
static struct item *mk_item(long id)
{
	struct item *it = reuse ? stash_pop() : NULL;
	if (it) note(CF_RECYCLED); else it = malloc(sizeof *it);
	memset(&it->n, 0, sizeof it->n);
	it->id = (unsigned long)id; it->chk = ~(unsigned long)id;
	return it;
}

static void xlock(int q)
{
	if (sync_mode != S_LOCK) return;
	switch (kind) {
	case K_WFCQ: cds_wfcq_dequeue_lock(&cq[q].h, &cq[q].t); break;
	case K_WFQ: pthread_mutex_lock(&wq[q].lock); break;
	case K_WFS: cds_wfs_pop_lock(&ws[q]); break;
	case K_LFS: cds_lfs_pop_lock(&ls[q]); break;
	}
}
static void xunlock(int q)
{
	if (sync_mode != S_LOCK) return;
	switch (kind) {
	case K_WFCQ: cds_wfcq_dequeue_unlock(&cq[q].h, &cq[q].t); break;
	case K_WFQ: pthread_mutex_unlock(&wq[q].lock); break;
	case K_WFS: cds_wfs_pop_unlock(&ws[q]); break;
	case K_LFS: cds_lfs_pop_unlock(&ls[q]); break;
	}
}
static void rcu_in(void) { if (sync_mode == S_RCU) RLOCK(); }
static void rcu_out(void) { if (sync_mode == S_RCU) RUNLOCK(); }

/* C17 bookkeeping: an operation issued after the gate runs solo and must neither reach a wait hint nor take more than a bounded number of steps */
static NS int touches(const struct lin_op *o, long q);
static long solo_q; static int quiet_mode;
static NS void solo_begin_q(long q) { solo_q = q; solo_steps0 = ds_my_steps(); solo_yields0 = ds_solo_yields(); }
static NS void solo_end(const char *what, long r)
{
	int me = ds_scen_index();
	if (solo_mode[me] && quiet_mode && r == R_WOULDBLOCK) {
		for (int i = 0; i < nhist; i++) if (hist[i].ret == ~0ul && hist[i].thr != me) return;	/* a thread blocked for good inside an operation: no claim */
		ds_fail("progress: %s on container %ld returned WOULDBLOCK although no other operation is in progress (every other thread has finished its program)", what, solo_q);
	}
	if (!solo_mode[me] || !ds_solo_active()) return;
	ds_flag(CF_SOLO_RAN);
	if (r == R_WOULDBLOCK) {
		/* allowed only while an operation of a (suspended) thread on that container is in flight; all store buffers were drained at the freeze */
		int inflight = 0;
		for (int i = 0; i < nhist; i++) if (hist[i].ret == ~0ul && hist[i].thr != me && (touches(&hist[i], solo_q) || (kind == K_WFCQ && hist[i].type == L_INS))) inflight = 1;	/* a splice may have moved a half-linked node between the queues */
		if (!inflight) ds_fail("progress: %s on container %ld returned WOULDBLOCK although no other operation on it is in progress (all other threads are suspended between operations)", what, solo_q);
		ds_flag(CF_WOULDBLOCK);
	}
	unsigned long st = ds_my_steps() - solo_steps0, y = ds_solo_yields() - solo_yields0;
	long bound = ds_cfg("solo_bound", 400);
	if (y) ds_fail("progress: %s (result %ld), run solo with every other thread suspended, reached a wait hint (cpu_relax/poll/futex/mutex) %lu times", what, r, y);
	if (st > (unsigned long)bound) ds_fail("progress: %s (result %ld), run solo with every other thread suspended, took %lu of its own steps (bound %ld)", what, r, st, bound);
}

static void do_ins(int q)
{
	long id = new_item_id();
	if (!id) return;
	struct item *it = mk_item(id);
	long r = R_NA;
	int h = h_begin(L_INS, q, id);
	solo_begin_q(q);
	switch (kind) {
	case K_WFCQ: cds_wfcq_node_init(&it->n.cq); r = cds_wfcq_enqueue(&cq[q].h, &cq[q].t, &it->n.cq); break;
	case K_WFQ: cds_wfq_node_init(&it->n.wq); cds_wfq_enqueue(&wq[q], &it->n.wq); break;
	case K_WFS: cds_wfs_node_init(&it->n.ws); r = cds_wfs_push(&ws[q], &it->n.ws); break;
	case K_LFS: cds_lfs_node_init(&it->n.ls); r = cds_lfs_push(&ls[q], &it->n.ls); break;
	case K_RCULFS: cds_lfs_node_init_rcu(&it->n.lr); r = cds_lfs_push_rcu(&lr[q], &it->n.lr); break;
	case K_LFQ: cds_lfq_node_init_rcu(&it->n.lq); RLOCK(); cds_lfq_enqueue_rcu(&lq[q], &it->n.lq); RUNLOCK(); break;
	}
	solo_end("insertion", r);
	h_end(h, r == R_NA ? R_NA : !!r, R_NA);
}

static void do_rem(int q, int v)
{
	void *n = NULL; int state = 0, has_state = 0;
	int h = h_begin(L_REM, q, v);
	solo_begin_q(q);
	switch (kind) {
	case K_WFCQ:
		switch (v) {
		case 0: n = cds_wfcq_dequeue_blocking(&cq[q].h, &cq[q].t); break;
		case 5: n = cds_wfcq_dequeue_with_state_blocking(&cq[q].h, &cq[q].t, &state); has_state = 1; break;
		default:
			xlock(q);
			if (v == 1) n = __cds_wfcq_dequeue_blocking(&cq[q].h, &cq[q].t);
			else if (v == 2) n = __cds_wfcq_dequeue_nonblocking(&cq[q].h, &cq[q].t);
			else if (v == 3) { n = __cds_wfcq_dequeue_with_state_blocking(&cq[q].h, &cq[q].t, &state); has_state = 1; }
			else { n = __cds_wfcq_dequeue_with_state_nonblocking(&cq[q].h, &cq[q].t, &state); has_state = 1; }
			xunlock(q);
		}
		if (n == CDS_WFCQ_WOULDBLOCK) { solo_end("non-blocking dequeue", R_WOULDBLOCK); h_end(h, R_WOULDBLOCK, R_NA); return; }
		if (has_state) state = !!(state & CDS_WFCQ_STATE_LAST);
		break;
	case K_WFQ:
		if (v == 0) n = cds_wfq_dequeue_blocking(&wq[q]);
		else { xlock(q); n = __cds_wfq_dequeue_blocking(&wq[q]); xunlock(q); }
		break;
	case K_WFS:
		switch (v) {
		case 0: n = cds_wfs_pop_blocking(&ws[q]); break;
		case 5: n = cds_wfs_pop_with_state_blocking(&ws[q], &state); has_state = 1; break;
		default:
			xlock(q); rcu_in();
			if (v == 1) n = __cds_wfs_pop_blocking(&ws[q]);
			else if (v == 2) n = __cds_wfs_pop_nonblocking(&ws[q]);
			else if (v == 3) { n = __cds_wfs_pop_with_state_blocking(&ws[q], &state); has_state = 1; }
			else { n = __cds_wfs_pop_with_state_nonblocking(&ws[q], &state); has_state = 1; }
			rcu_out(); xunlock(q);
		}
		if (n == CDS_WFS_WOULDBLOCK) { solo_end("non-blocking pop", R_WOULDBLOCK); h_end(h, R_WOULDBLOCK, R_NA); return; }
		if (has_state) state = !!(state & CDS_WFS_STATE_LAST);
		break;
	case K_LFS:
		if (v == 0) n = cds_lfs_pop_blocking(&ls[q]);
		else { xlock(q); rcu_in(); n = __cds_lfs_pop(&ls[q]); rcu_out(); xunlock(q); }
		break;
	case K_RCULFS: RLOCK(); n = cds_lfs_pop_rcu(&lr[q]); RUNLOCK(); break;
	case K_LFQ: RLOCK(); n = cds_lfq_dequeue_rcu(&lq[q]); RUNLOCK(); break;
	}
	solo_end("removal", n ? 1 : 0);
	if (!n) { h_end(h, R_NULL, R_NA); return; }
	long id = item_check(n, "dequeue/pop");
	h_end(h, id, has_state ? state : R_NA);
	dispose(n);
}

static void do_splice(int d, int s, int v)
{
	enum cds_wfcq_ret rc;
	if (kind != K_WFCQ || d == s) return;
	int h = h_begin(L_SPL_DRAIN, s, d);
	solo_begin_q(s);
	if (v == 0) rc = cds_wfcq_splice_blocking(&cq[d].h, &cq[d].t, &cq[s].h, &cq[s].t);
	else {
		xlock(s);
		if (v == 1) rc = __cds_wfcq_splice_blocking(&cq[d].h, &cq[d].t, &cq[s].h, &cq[s].t);
		else rc = __cds_wfcq_splice_nonblocking(&cq[d].h, &cq[d].t, &cq[s].h, &cq[s].t);
		xunlock(s);
	}
	solo_end("splice", rc);
	if (rc != CDS_WFCQ_RET_WOULDBLOCK && rc != CDS_WFCQ_RET_SRC_EMPTY && rc != CDS_WFCQ_RET_DEST_EMPTY && rc != CDS_WFCQ_RET_DEST_NON_EMPTY)
		ds_fail("splice returned undocumented code %d", (int)rc);
	if (v != 2 && rc == CDS_WFCQ_RET_WOULDBLOCK) ds_fail("blocking splice returned CDS_WFCQ_RET_WOULDBLOCK");
	h_end(h, rc, R_NA);
	if (rc == CDS_WFCQ_RET_DEST_EMPTY || rc == CDS_WFCQ_RET_DEST_NON_EMPTY) h_append_phase(h, d, rc);
}

static void do_iter(int q, int v)
{
	if (kind != K_WFCQ) return;
	uint64_t seq = 0; int complete = 1, cnt = 0;
	struct cds_wfcq_node *n;
	int h = h_begin(L_SNAP, q, v);
	solo_begin_q(q);
	xlock(q);
	if (v == 0) {
		for (n = __cds_wfcq_first_blocking(&cq[q].h, &cq[q].t); n; n = __cds_wfcq_next_blocking(&cq[q].h, &cq[q].t, n)) {
			if (++cnt > MAXITEM) ds_fail("iteration does not terminate: more than %d nodes visited", MAXITEM);
			seq = sq_push_back(seq, item_check(n, "iteration"));
		}
	} else {
		for (n = __cds_wfcq_first_nonblocking(&cq[q].h, &cq[q].t); n; n = __cds_wfcq_next_nonblocking(&cq[q].h, &cq[q].t, n)) {
			if (n == CDS_WFCQ_WOULDBLOCK) { complete = 0; break; }
			if (++cnt > MAXITEM) ds_fail("iteration does not terminate: more than %d nodes visited", MAXITEM);
			seq = sq_push_back(seq, item_check(n, "iteration"));
		}
	}
	xunlock(q);
	solo_end("iteration", complete ? cnt : R_WOULDBLOCK);
	h_end(h, (long)seq, complete);
}

static NS void set_c(int h, long c) { hist[h].c = c; }
static void do_popall(int q, int v, int w)
{
	struct item *got[MAXITEM + 1]; int ng = 0; uint64_t seq = 0; int wb = 0;
	if (kind != K_WFS && kind != K_LFS) return;
	int h = h_begin(L_POPALL, q, v);
	solo_begin_q(q);
	if (kind == K_WFS) {
		struct cds_wfs_head *head; struct cds_wfs_node *n;
		if (v == 0) head = cds_wfs_pop_all_blocking(&ws[q]);
		else { xlock(q); head = __cds_wfs_pop_all(&ws[q]); xunlock(q); }
		if (head) {
			if (!w) {
				cds_wfs_for_each_blocking(head, n) {
					if (ng >= MAXITEM) ds_fail("pop_all chain does not terminate: more than %d nodes", MAXITEM);
					seq = sq_push_back(seq, item_check(n, "pop_all iteration")); got[ng++] = (struct item *)n;
				}
			} else {
				n = cds_wfs_first(head);
				while (n) {
					if (ng >= MAXITEM) ds_fail("pop_all chain does not terminate: more than %d nodes", MAXITEM);
					seq = sq_push_back(seq, item_check(n, "pop_all iteration")); got[ng++] = (struct item *)n;
					struct cds_wfs_node *nx;
					while ((nx = cds_wfs_next_nonblocking(n)) == CDS_WFS_WOULDBLOCK) {
						wb = 1; solo_end("non-blocking stack iteration", R_WOULDBLOCK);
						if (i_am_solo()) { nx = NULL; break; }	/* the suspended pusher never completes: abandon the rest of the chain */
						ds_yield(); solo_begin_q(q);
					}
					n = nx;
				}
			}
		}
	} else {
		struct cds_lfs_head *head; struct cds_lfs_node *n;
		if (v == 0) head = cds_lfs_pop_all_blocking(&ls[q]);
		else { xlock(q); head = __cds_lfs_pop_all(&ls[q]); xunlock(q); }
		if (head) cds_lfs_for_each(head, n) {
			if (ng >= MAXITEM) ds_fail("pop_all chain does not terminate: more than %d nodes", MAXITEM);
			seq = sq_push_back(seq, item_check(n, "pop_all iteration")); got[ng++] = (struct item *)n;
		}
	}
	solo_end("pop_all", ng);
	set_c(h, wb);
	if (wb) note(CF_WOULDBLOCK);
	h_end(h, (long)seq, 1);
	for (int i = 0; i < ng; i++) dispose(got[i]);
}

static void do_empty(int q)
{
	int r;
	if (kind != K_WFCQ && kind != K_WFS && kind != K_LFS) return;
	int h = h_begin(L_EMPTY, q, 0);
	solo_begin_q(q);
	if (kind == K_WFCQ) r = cds_wfcq_empty(&cq[q].h, &cq[q].t);
	else if (kind == K_WFS) r = cds_wfs_empty(&ws[q]);
	else r = cds_lfs_empty(&ls[q]);
	solo_end("empty()", r);
	h_end(h, !!r, R_NA);
}

enum { OP_ENQ, OP_DEQ, OP_SPLICE, OP_ITER, OP_POPALL, OP_EMPTY, OP_GATE, OP_YIELD, OP_BARRIER, OP_MKHELPER, OP_CDEQ, OP_CENQ, OP_DRAIN, OP_THAW, OP_BAD };
static NS int fetch(int t, int i, long *a)
{
	static const char *names[] = { "enq", "deq", "splice", "iter", "popall", "empty", "gate", "yield", "barrier", "mkhelper", "cdeq", "cenq", "drain", "thaw" };
	const struct ds_op *o = ds_op(t, i);
	a[0] = o->a[0]; a[1] = o->a[1]; a[2] = o->a[2];
	for (int k = 0; k < OP_BAD; k++) if (!strcmp(o->name, names[k])) return k;
	ds_bad_case("cds: unknown op %s", o->name);
}
static NS void set_solo(void) { solo_mode[ds_scen_index()] = 1; }
static NS void solo_inflight_class(void)
{
	/* non-trivial for C17: at the freeze some other thread was inside an operation */
	for (int i = 0; i < nhist; i++) if (hist[i].ret == ~0ul && hist[i].thr != ds_scen_index()) ds_flag(CF_SOLO_INFLIGHT);
}
static int uses_rcu(void);
/* ---- crowd mode (cfg crowd N): container 0 is pre-filled by T0 with N items in one scheduling step; threads remove (cdeq: one removal; drain k: k
 * removals, each a unit for the `harass` schedule) and insert (cenq) crowd items. Too many operations for the linearizability search, so the oracles are
 * counting ones: every item is removed at most once and never invented; a removal reports 'empty' only if the container may have been empty at some
 * moment of the call (insertions completed before it began, minus removals begun before it returned, is not positive); one thread's removals come out in
 * container order when nobody inserts concurrently; at the end every item is accounted for. ---- */
#define MAXCROWD 400
static struct item *crowd; static int ncrowd, crowd_next;
static unsigned char crowd_removed[MAXCROWD + 64];
static long crowd_ins_done, crowd_rem_begun, crowd_rem_ok, crowd_late_ins;
static long crowd_last[MAXTH];
static NS long crowd_snapshot_ins(void) { return crowd_ins_done; }
static NS void crowd_rem_begin(void) { crowd_rem_begun++; }
static NS void crowd_empty_result(long ins_before, int victim)
{
	/* removals begun before now, other than this one */
	long others = crowd_rem_begun - 1;
	if (ins_before - others > 0)
		ds_fail("removal returned 'empty' although %ld insertions had completed before it was called and only %ld other removals had even begun when it returned: at least %ld items were in the container during the whole call%s",
			ins_before, others, ins_before - others, victim ? " (the removal that was interfered with on every step)" : "");
}
static NS void crowd_got(void *n, const char *what)
{
	struct item *it = n;
	if (it < crowd || it >= crowd + ncrowd || ((char *)it - (char *)crowd) % sizeof *it) ds_fail("%s returned pointer %p which is not an item of this container (dummy/internal node or garbage)", what, n);
	int i = (int)(it - crowd);
	if (crowd_removed[i]++) ds_fail("%s returned item %d a second time", what, i);
	if (i >= crowd_next) ds_fail("%s returned item %d which was never inserted", what, i);
	int me = ds_scen_index();
	if (!crowd_late_ins && (kind == K_LFQ) && crowd_last[me] && i + 1 <= crowd_last[me]) ds_fail("one thread's removals came out of order: item %d after item %ld (FIFO queue, single inserter)", i, crowd_last[me] - 1);
	crowd_last[me] = i + 1;
	crowd_rem_ok++;
}
static NS struct item *crowd_new(void) { if (crowd_next >= ncrowd) return NULL; return &crowd[crowd_next++]; }
static NS void crowd_ins_ret(int late) { crowd_ins_done++; if (late) crowd_late_ins = 1; }
static void crowd_ins_one(struct item *it)
{
	switch (kind) {
	case K_WFS: cds_wfs_node_init(&it->n.ws); (void) cds_wfs_push(&ws[0], &it->n.ws); break;
	case K_LFS: cds_lfs_node_init(&it->n.ls); (void) cds_lfs_push(&ls[0], &it->n.ls); break;
	case K_RCULFS: cds_lfs_node_init_rcu(&it->n.lr); (void) cds_lfs_push_rcu(&lr[0], &it->n.lr); break;
	case K_LFQ: cds_lfq_node_init_rcu(&it->n.lq); RLOCK(); cds_lfq_enqueue_rcu(&lq[0], &it->n.lq); RUNLOCK(); break;
	default: ds_bad_case("crowd mode: container kind not supported");
	}
}
static void crowd_ins(void) { struct item *it = crowd_new(); if (!it) return; crowd_ins_one(it); crowd_ins_ret(1); }
static void crowd_rem(int victim)
{
	void *n = NULL;
	long ins_before = crowd_snapshot_ins();
	crowd_rem_begin();
	switch (kind) {
	case K_WFS: rcu_in(); n = __cds_wfs_pop_blocking(&ws[0]); rcu_out(); break;
	case K_LFS: rcu_in(); n = __cds_lfs_pop(&ls[0]); rcu_out(); break;
	case K_RCULFS: RLOCK(); n = cds_lfs_pop_rcu(&lr[0]); RUNLOCK(); break;
	case K_LFQ: RLOCK(); n = cds_lfq_dequeue_rcu(&lq[0]); RUNLOCK(); break;
	default: ds_bad_case("crowd mode: container kind not supported");
	}
	if (victim) ds_note("victim removal -> %s", n ? "item" : "empty");
	if (!n) crowd_empty_result(ins_before, victim); else crowd_got(n, "removal");
}
static NS void crowd_setup(int n) { if (n > MAXCROWD) ds_bad_case("crowd too large"); ncrowd = n + 40; }
static void crowd_fill(int n)
{
	crowd_setup(n);
	crowd = calloc((size_t)ncrowd, sizeof *crowd);
	ds_flag(CF_CROWD);
	ds_bulk(1);
	for (int i = 0; i < n; i++) { struct item *it = crowd_new(); crowd_ins_one(it); crowd_ins_ret(0); }
	ds_bulk(0);
}
static NS void crowd_final(void)
{
	long left = 0;
	for (int i = 0; i < crowd_next; i++) if (!crowd_removed[i]) left++;
	if (left) ds_fail("%ld of the %d inserted items were neither removed by a thread nor found by the final drain", left, crowd_next);
}

static void run_program(int t)
{
	int n = ds_nops(t);
	for (int i = 0; i < n; i++) {
		long a[3];
		int op = fetch(t, i, a);
		ds_op_begin(i);
		int q = (int)a[0] & 1;
		switch (op) {
		case OP_ENQ: do_ins(q); break;
		case OP_DEQ: do_rem(q, (int)a[1]); break;
		case OP_SPLICE: do_splice(q, (int)a[1] & 1, (int)a[2]); break;
		case OP_ITER: do_iter(q, (int)a[1]); break;
		case OP_POPALL: do_popall(q, (int)a[1], (int)a[2]); break;
		case OP_EMPTY: do_empty(q); break;
		case OP_GATE: ds_solo_gate(); set_solo(); solo_inflight_class(); break;
		case OP_YIELD: ds_yield(); break;
		case OP_THAW: if (ds_solo_thaw()) { quiet_mode = 1; ds_flag(CF_THAWED); } break;
		/* call_rcu housekeeping by other threads (C17: a thread may be suspended inside it, holding the library's call_rcu mutex, while the solo thread
		 * dequeues - rculfqueue hands its dummy nodes to call_rcu) */
		case OP_CDEQ: crowd_rem(1); break;
		case OP_CENQ: crowd_ins(); break;
		case OP_DRAIN: for (long k = 0; k < a[0]; k++) { crowd_rem(0); ds_unit(); } break;
		case OP_BARRIER: if (uses_rcu()) F(barrier)(); break;
		case OP_MKHELPER: if (uses_rcu()) { struct call_rcu_data *c = F(create_call_rcu_data)(0, -1); if (c) F(call_rcu_data_free)(c); } break;
		}
	}
	ds_op_begin(-1);
}
static int uses_rcu(void) { return sync_mode == S_RCU || kind == K_RCULFS || kind == K_LFQ; }
static void *thread_main(void *arg)
{
	if (uses_rcu()) {
		F(register_thread)();
#ifdef FL_QSBR
		F(thread_offline)();
#endif
#ifdef FL_BP
		RLOCK(); RUNLOCK();	/* bp registers a thread on its first use; "registered thread" for the progress checks */
#endif
	}
	run_program((int)(long)arg);
#ifndef FL_BP
	if (uses_rcu()) F(unregister_thread)();
#endif
	return NULL;
}

static NS void lfq_dump(int q)
{
	char b[300]; size_t o = 0; b[0] = 0;
	for (struct cds_lfq_node_rcu *n = lq[q].head; n && o + 40 < sizeof b; n = n->next) o += snprintf(b + o, sizeof b - o, "%s%p ", n->dummy ? "D" : "U", (void *)n);
	ds_note("lfq %d at quiescence: head chain = %s tail=%p", q, b, (void *)lq[q].tail);
}
static int tids[MAXTH];
static void scenario(void)
{
	int np = ds_prog_threads();
	kind = (int)ds_cfg("kind", 0); sync_mode = (int)ds_cfg("sync", 0); free_mode = (int)ds_cfg("freemode", 0); reuse = (int)ds_cfg("reuse", 0);
	if (kind == K_RCULFS || kind == K_LFQ) sync_mode = S_RCU;
	if ((kind == K_WFCQ || kind == K_WFQ) && sync_mode == S_RCU) ds_bad_case("wfcq has no RCU scheme");
	if (np > MAXTH - 2) ds_bad_case("too many threads");
	FL_SET_MEMBARRIER((int)ds_cfg("membarrier", 1));
	if (uses_rcu()) {
		F(register_thread)();
#ifdef FL_QSBR
		F(thread_offline)();
#endif
	}
	for (int q = 0; q < MAXQ; q++) {
		switch (kind) {
		case K_WFCQ: cds_wfcq_init(&cq[q].h, &cq[q].t); break;
		case K_WFQ: cds_wfq_init(&wq[q]); break;
		case K_WFS: cds_wfs_init(&ws[q]); break;
		case K_LFS: cds_lfs_init(&ls[q]); break;
		case K_RCULFS: cds_lfs_init_rcu(&lr[q]); break;
		case K_LFQ: cds_lfq_init_rcu(&lq[q], F(call_rcu)); break;
		}
	}
	if (ds_cfg("solo", -1) >= 0 && uses_rcu()) (void) F(get_default_call_rcu_data)();	/* C17: the one-time creation of the default call_rcu helper is not part of any operation */
	if (ds_cfg("crowd", 0) > 0) {
		if (sync_mode != S_RCU) ds_bad_case("crowd mode needs the RCU scheme");
		crowd_fill((int)ds_cfg("crowd", 0));
		for (int t = 1; t < np; t++) tids[t] = ds_spawn(thread_main, (void *)(long)t);
		for (int t = 1; t < np; t++) ds_join(tids[t]);
		ds_op_begin(99);
		ds_bulk(1);
		for (int guard = 0; guard <= MAXCROWD + 50; guard++) {
			void *n = NULL;
			switch (kind) {
			case K_WFS: n = __cds_wfs_pop_blocking(&ws[0]); break;
			case K_LFS: n = __cds_lfs_pop(&ls[0]); break;
			case K_RCULFS: RLOCK(); n = cds_lfs_pop_rcu(&lr[0]); RUNLOCK(); break;
			case K_LFQ: RLOCK(); n = cds_lfq_dequeue_rcu(&lq[0]); RUNLOCK(); break;
			}
			if (!n) break;
			crowd_got(n, "final drain");
		}
		ds_bulk(0);
		crowd_final();
		if (kind == K_LFQ) { int rc = cds_lfq_destroy_rcu(&lq[0]); if (rc) ds_fail("cds_lfq_destroy_rcu of the drained queue returned %d", rc); }
		if (uses_rcu()) { F(barrier)(); F(unregister_thread)(); }
		ds_done();
	}
	run_program(0);
	for (int t = 1; t < np; t++) tids[t] = ds_spawn(thread_main, (void *)(long)t);
	if (ds_cfg("solo", -1) >= 0) {
		/* C17: the case ends when the solo thread has finished; suspended threads stay suspended */
		ds_join(tids[ds_cfg("solo", 1)]);
		if (!ds_solo_active() && !quiet_mode) ds_fail("internal: solo thread finished without a freeze");
		ds_done();
	}
	for (int t = 1; t < np; t++) ds_join(tids[t]);
	ds_op_begin(99);
	/* quiescence: drain everything (part of the checked history) */
	for (int q = 0; q < MAXQ; q++) {
		if (kind == K_LFQ) {
			lfq_dump(q);
			int h = h_begin(L_DESTROY, q, 0);
			int rc = cds_lfq_destroy_rcu(&lq[q]);
			if (rc != 0 && rc != -EPERM) ds_fail("cds_lfq_destroy_rcu returned undocumented value %d", rc);
			h_end(h, rc, R_NA);
			if (rc == 0) continue;
		}
		for (int guard = 0; ; guard++) {
			int before = nhist;
			if (guard > MAXITEM + 1) ds_fail("final drain of container %d does not terminate", q);
			do_rem(q, 0);
			if (hist[before].r == R_NULL) break;
		}
		if (kind == K_LFQ) {
			int h = h_begin(L_DESTROY, q, 0);
			int rc = cds_lfq_destroy_rcu(&lq[q]);
			h_end(h, rc, R_NA);
		}
	}
	check_history();
	if (uses_rcu()) F(barrier)();
	{ struct item *it; while ((it = pop_kept())) free(it); }
	for (int q = 0; q < MAXQ; q++) {
		if (kind == K_WFCQ) cds_wfcq_destroy(&cq[q].h, &cq[q].t);
		else if (kind == K_WFQ) cds_wfq_destroy(&wq[q]);
		else if (kind == K_WFS) cds_wfs_destroy(&ws[q]);
		else if (kind == K_LFS) cds_lfs_destroy(&ls[q]);
	}
#ifndef FL_BP
	if (uses_rcu()) F(unregister_thread)();
#endif
	ds_done();
}
DS_SCENARIO(FLSCEN("cds"), scenario)
