/* Wing-Gong linearizability checker with memoisation (DESIGN.md §4). Not instrumented. */
#ifndef DS_LIN_H
#define DS_LIN_H
#include <stdint.h>
#define LIN_MAXOPS 60
#define LIN_STATE_WORDS 8

struct lin_state { uint64_t w[LIN_STATE_WORDS]; };	/* model state: small, copyable, compared bytewise */
struct lin_op {
	int thr, type;
	long a, b, c;		/* arguments */
	long r, r2;		/* results */
	unsigned long call, ret;	/* logical steps; ret = ~0ul for an operation that never returned */
	int dep;		/* 0, or 1 + index of an operation that must be linearised before this one (two-step operations) */
};
/* sequential specification: apply op to *s; return 1 if the recorded result is one the specification allows in state *s
 * (and update *s), 0 otherwise */
typedef int (*lin_apply_fn)(const struct lin_op *op, struct lin_state *s, void *ctx);

/* returns 1 if linearizable, 0 if not, -1 if the search budget was exhausted (inconclusive) */
int lin_check(const struct lin_op *ops, int n, const struct lin_state *init, lin_apply_fn apply, void *ctx, struct lin_state *final_out);
#endif
