/*
 * Scenario "fork_<flavor>": fork() bracketed by the documented handlers.  Serves C16.   DS_PER_FLAVOR
 *
 * T0 (main) is the forking thread.  cfg: helpers (bit0: T0 gets its own per-thread call_rcu helper, bit1: per-CPU helpers exist), rt (helpers are
 * URCU_CALL_RCU_RT), ht (1: an AUTO_RESIZE hash table exists, so the resize work queue is live), childmask (which steps the child performs).
 * T0 program:
 *   callrcu            queue a callback (identified by a counter slot)
 *   htadd n            add n nodes to the AUTO_RESIZE table (queues lazy resizes on the worker)
 *   sync | barrier     synchronize_rcu / rcu_barrier
 *   lock | unlock      read-side section of the forking thread (never across fork for the flavors other than bp)
 *   (cfg childmask bit 6: the child itself forks once more, bracketed by the handlers, and waits for the grandchild)
 *   fork               call_rcu_before_fork [+ urcu_bp_before_fork]; fork(); handlers in parent and child; the child runs its steps and exits; the
 *                      parent waits for it and goes on
 *   yield
 * bp only - T1..Tn: reader threads (lock, read, unlock, yield) that stay registered and may be inside sections when T0 forks.
 * For the other flavors, as documented, no thread but T0 is a registered reader at fork time (library helper threads unregister while paused).
 *
 * Oracle: the child (only the forking thread exists there) completes: a read-side section, synchronize_rcu(), call_rcu() of a new callback,
 * rcu_barrier(), additions to the AUTO_RESIZE table and its destruction - under the engine's deadlock / no-progress rules; every callback that was
 * queued and had not run at fork time runs exactly once in the child, those that had run are not run again; the parent likewise runs every callback
 * exactly once and all its threads finish; bp: the child's grace period does not wait for the parent's other readers (they do not exist there).
 */
#define _GNU_SOURCE
#include <pthread.h>
#include <stdio.h>
#include <stdlib.h>
#include <string.h>
#include <unistd.h>
#include <errno.h>
#include <sys/wait.h>
#include "flavor.h"
#include <urcu/call-rcu.h>
#include <urcu/rculfhash.h>
#include "ds.h"

#define NS __attribute__((no_sanitize_thread, noinline))
#define MAXCB 32
enum { CF_PENDING_AT_FORK = 0, CF_HELPER_ASLEEP_AT_FORK = 1, CF_PERCPU = 2, CF_PERTHREAD = 3, CF_HT_RESIZE_QUEUED = 4, CF_BP_READER_IN_SECTION_AT_FORK = 5,
       CF_CHILD_OK = 6, CF_FORKED_TWICE = 7, CF_CB_RAN_BEFORE_FORK = 8, CF_LATE_TABLE = 9, CF_CHILD_OWN_TABLE = 10, CF_CHILD_SECTION_VS_GP = 11, CF_BP_SYNC_AT_FORK = 12, CF_SECOND_FORKER = 13 };

#ifdef FL_QSBR
# define RLOCK() F(thread_online)()
# define RUNLOCK() F(thread_offline)()
#else
# define RLOCK() F(read_lock)()
# define RUNLOCK() F(read_unlock)()
#endif
extern const struct rcu_flavor_struct F(flavor);

struct cb { struct rcu_head rh; int id; };
static struct cb cbs[MAXCB]; static int ncb;
static int ran[MAXCB];			/* per-process invocation counters (copied by fork) */
static int readers_in_section;
static struct cds_lfht *ht;
struct hnode { struct cds_lfht_node n; int key; };
static int next_key;
static int is_child;

static NS void cb_ran(int id) { ran[id]++; if (ran[id] > 1) ds_fail("%s: callback %d invoked %d times", is_child ? "child" : "parent", id, ran[id]); }
static void cb_fn(struct rcu_head *h) { cb_ran(caa_container_of(h, struct cb, rh)->id); }
static NS int new_cb(void) { if (ncb >= MAXCB) ds_bad_case("too many callbacks"); cbs[ncb].id = ncb; return ncb++; }
static NS int get_ncb(void) { return ncb; }
static NS int get_ran(int i) { return ran[i]; }
static NS void sec_count(int d) { readers_in_section += d; }
static NS int get_readers_in_section(void) { return readers_in_section; }
static int syncs_in_flight;
static NS void sync_count(int d) { syncs_in_flight += d; }
static NS int get_syncs_in_flight(void) { return syncs_in_flight; }
static NS void set_child(void) { is_child = 1; }

static int match(struct cds_lfht_node *n, const void *k) { return caa_container_of(n, struct hnode, n)->key == *(const int *)k; }
static void ht_add(int n)
{
	for (int i = 0; i < n; i++) {
		struct hnode *h = malloc(sizeof *h);
		cds_lfht_node_init(&h->n); h->key = next_key++;
		RLOCK(); cds_lfht_add(ht, (unsigned long)h->key * 2654435761ul, &h->n); RUNLOCK();
	}
}
static void ht_check_and_empty(const char *who)
{
	struct cds_lfht_iter it; struct cds_lfht_node *n; int cnt = 0;
	RLOCK();
	for (int k = 0; k < next_key; k++) {
		cds_lfht_lookup(ht, (unsigned long)k * 2654435761ul, match, &k, &it);
		n = cds_lfht_iter_get_node(&it);
		if (!n) ds_fail("%s: key %d added to the hash table is not found any more", who, k);
		if (cds_lfht_del(ht, n)) ds_fail("%s: cds_lfht_del of resident key %d failed", who, k);
		cnt++;
	}
	RUNLOCK();
	F(synchronize_rcu)();
	int rc = cds_lfht_destroy(ht, NULL);
	if (rc) ds_fail("%s: cds_lfht_destroy of the emptied table returned %d", who, rc);
	ht = NULL;
}

static void check_all_ran_once(const char *who)
{
	for (int i = 0; i < get_ncb(); i++)
		if (get_ran(i) != 1) ds_fail("%s: after rcu_barrier() callback %d has run %d times (exactly once expected)", who, i, get_ran(i));
}

static void do_fork(void);
static void child_own_table(void);
static int generation;
static void child_main(void)
{
	long mask = ds_cfg("childmask", 63);
	generation++;
#ifdef FL_BP
	urcu_bp_after_fork_child();
#endif
	F(call_rcu_after_fork_child)();
	if (mask & 1) { RLOCK(); RUNLOCK(); }
	if (mask & 2) F(synchronize_rcu)();
	if (mask & 4) { int i = new_cb(); RLOCK(); F(call_rcu)(&cbs[i].rh, cb_fn); RUNLOCK(); }
	if (mask & 256) {
		/* the child's own grace periods must wait for the child's own reader (the forking thread): a callback queued inside a section must not
		 * run before that section ends */
		int i = new_cb();
		RLOCK();
		F(call_rcu)(&cbs[i].rh, cb_fn);
		for (int k = 0; k < 12; k++) { ds_yield(); if (get_ran(i)) ds_fail("child: callback %d ran while the forking thread was still inside the read-side section in which it queued it (the child's grace period does not wait for the child's only reader)", i); }
		RUNLOCK();
		ds_flag(CF_CHILD_SECTION_VS_GP);
	}
	if (mask & 8) { if (ht) ht_add(12); }
	/* second generation: the child forks again with the handlers (while its own re-created helpers may be busy) */
	if ((mask & 64) && generation == 1) { ds_flag(CF_FORKED_TWICE); do_fork(); }
	F(barrier)();
	check_all_ran_once("child");
	if ((mask & 16) && ht) ht_check_and_empty("child");
	if (mask & 128) { ds_flag(CF_CHILD_OWN_TABLE); child_own_table(); }
	if (mask & 32) { F(synchronize_rcu)(); F(barrier)(); }
	ds_done();	/* in the child: exit status 0 */
}

static int nforks;
static void do_fork(void)
{
	int pending = 0;
	for (int i = 0; i < get_ncb(); i++) { if (!get_ran(i)) pending++; else ds_flag(CF_CB_RAN_BEFORE_FORK); }
	if (pending) ds_flag(CF_PENDING_AT_FORK);
	if (get_readers_in_section()) ds_flag(CF_BP_READER_IN_SECTION_AT_FORK);
	if (get_syncs_in_flight()) ds_flag(CF_BP_SYNC_AT_FORK);
	if (nforks++) ds_flag(CF_FORKED_TWICE);
	F(call_rcu_before_fork)();
#ifdef FL_BP
	urcu_bp_before_fork();
#endif
	pid_t p = fork();
	if (p < 0) ds_bad_case("fork failed");
	if (p == 0) { set_child(); child_main(); }
#ifdef FL_BP
	urcu_bp_after_fork_parent();
#endif
	F(call_rcu_after_fork_parent)();
	int st = 0;
	while (waitpid(p, &st, 0) < 0 && errno == EINTR) ;
	if (WIFEXITED(st) && WEXITSTATUS(st) == 23) ds_child_budget("the forked child exceeded the step budget (its report is in the captured stderr)");
	if (!WIFEXITED(st) || WEXITSTATUS(st) != 0)
		ds_fail("the forked child did not complete (wait status 0x%x: %s); its report is in the captured stderr", st, WIFSIGNALED(st) ? "killed by a signal" : WEXITSTATUS(st) == 21 ? "oracle/termination failure" : WEXITSTATUS(st) == 22 ? "crash" : "other");
	ds_flag(CF_CHILD_OK);
}

enum { OP_CALLRCU, OP_HTADD, OP_SYNC, OP_BARRIER, OP_LOCK, OP_UNLOCK, OP_FORK, OP_YIELD, OP_READ, OP_HTNEW, OP_RFORK, OP_BAD };
static NS int fetch(int t, int i, long *a0)
{
	static const char *names[] = { "callrcu", "htadd", "sync", "barrier", "lock", "unlock", "fork", "yield", "read", "htnew", "rfork" };
	const struct ds_op *o = ds_op(t, i);
	*a0 = o->a[0];
	for (int k = 0; k < OP_BAD; k++) if (!strcmp(o->name, names[k])) return k;
	ds_bad_case("fork: unknown op %s", o->name);
}
static unsigned long shared_word;
#ifdef FL_BP
#include <signal.h>
/* a second forking thread (bp): a reader forks on its own, bracketed by the urcu-bp handlers only (its child uses only the read-side and a grace period,
 * no call_rcu), with a signal mask of its own. The handlers block all signals around the fork and must give every thread - parent side and child - its
 * own mask back, also when another thread is inside its own fork bracket at the same time. */
static NS int mask_differs(const sigset_t *a, const sigset_t *b) { for (int s = 1; s < 32; s++) if (sigismember(a, s) != sigismember(b, s)) return s; return 0; }
static void reader_fork(int t)
{
	sigset_t before, now;
	sigprocmask(SIG_SETMASK, NULL, &before);	/* per-thread on Linux; not the wrapped pthread_sigmask */
	ds_flag(CF_SECOND_FORKER);
	urcu_bp_before_fork();
	pid_t p = fork();
	if (p < 0) ds_bad_case("fork failed");
	if (p == 0) {
		set_child();
		urcu_bp_after_fork_child();
		sigprocmask(SIG_SETMASK, NULL, &now);
		int s = mask_differs(&before, &now);
		if (s) ds_fail("child of reader T%d: urcu_bp_after_fork_child() left signal %d %s, it was %s before urcu_bp_before_fork()", t, s, sigismember(&now, s) ? "blocked" : "unblocked", sigismember(&before, s) ? "blocked" : "unblocked");
		RLOCK(); (void) uatomic_load(&shared_word); RUNLOCK();
		F(synchronize_rcu)();
		ds_done();
	}
	urcu_bp_after_fork_parent();
	sigprocmask(SIG_SETMASK, NULL, &now);
	int s = mask_differs(&before, &now);
	if (s) ds_fail("reader T%d after fork: urcu_bp_after_fork_parent() left signal %d %s, it was %s before urcu_bp_before_fork() (another thread's mask?)", t, s, sigismember(&now, s) ? "blocked" : "unblocked", sigismember(&before, s) ? "blocked" : "unblocked");
	int st = 0;
	while (waitpid(p, &st, 0) < 0 && errno == EINTR) ;
	if (WIFEXITED(st) && WEXITSTATUS(st) == 23) ds_child_budget("the child forked by a reader thread exceeded the step budget");
	if (!WIFEXITED(st) || WEXITSTATUS(st) != 0) ds_fail("the child forked by reader T%d did not complete (wait status 0x%x); its report is in the captured stderr", t, st);
}
#endif
static void *reader_main(void *arg)
{
	int t = (int)(long)arg, n = ds_nops(t);
#ifdef FL_BP
	if (t & 1) { sigset_t m; sigemptyset(&m); sigaddset(&m, SIGUSR2); sigaddset(&m, SIGHUP); pthread_sigmask(SIG_BLOCK, &m, NULL); }	/* odd readers: a mask of their own */
#endif
	F(register_thread)();
	for (int i = 0; i < n; i++) {
		long a0; int op = fetch(t, i, &a0);
		ds_op_begin(i);
		if (op == OP_LOCK) { RLOCK(); sec_count(1); }
		else if (op == OP_UNLOCK) { sec_count(-1); RUNLOCK(); }
		else if (op == OP_READ) (void) uatomic_load(&shared_word);
		else if (op == OP_SYNC) { sync_count(1); F(synchronize_rcu)(); sync_count(-1); }
		else if (op == OP_YIELD) ds_yield();
#ifdef FL_BP
		else if (op == OP_RFORK) reader_fork(t);
#endif
		else ds_bad_case("fork: op not valid in a reader thread");
	}
	ds_op_begin(-1);
#ifndef FL_BP
	F(unregister_thread)();
#endif
	return NULL;
}

static struct cds_lfht *volatile late_ht;
/* an application thread that is NOT a registered reader (allowed next to fork for every flavor): it creates the process's first AUTO_RESIZE hash
 * table, possibly while T0 forks */
static void *plain_main(void *arg)
{
	int t = (int)(long)arg, n = ds_nops(t);
	for (int i = 0; i < n; i++) {
		long a0; int op = fetch(t, i, &a0);
		ds_op_begin(i);
		if (op == OP_HTNEW) { if (!late_ht) { struct cds_lfht *h = cds_lfht_new_flavor(1, 1, 0, CDS_LFHT_AUTO_RESIZE, &F(flavor), NULL); if (!h) ds_bad_case("cds_lfht_new failed"); late_ht = h; ds_flag(CF_LATE_TABLE); } }
		else if (op == OP_YIELD) ds_yield();
		else ds_bad_case("fork: op not valid in a plain thread");
	}
	ds_op_begin(-1);
	return NULL;
}
static void child_own_table(void)
{
	/* the child creates a resizable table of its own, fills it so that lazy resizes run on the (re-created or new) worker, empties and destroys it */
	struct cds_lfht *h = cds_lfht_new_flavor(1, 1, 0, CDS_LFHT_AUTO_RESIZE, &F(flavor), NULL);
	struct hnode *n[10];
	if (!h) ds_fail("child: cds_lfht_new returned NULL");
	for (int i = 0; i < 10; i++) { n[i] = malloc(sizeof *n[i]); cds_lfht_node_init(&n[i]->n); n[i]->key = 1000 + i; RLOCK(); cds_lfht_add(h, (unsigned long)n[i]->key * 2654435761ul, &n[i]->n); RUNLOCK(); }
	RLOCK();
	for (int i = 0; i < 10; i++) {
		struct cds_lfht_iter it; cds_lfht_lookup(h, (unsigned long)n[i]->key * 2654435761ul, match, &n[i]->key, &it);
		if (cds_lfht_iter_get_node(&it) != &n[i]->n) ds_fail("child: key %d added to the child's own table is not found", n[i]->key);
		if (cds_lfht_del(h, &n[i]->n)) ds_fail("child: del in the child's own table failed");
	}
	RUNLOCK();
	F(synchronize_rcu)();
	if (cds_lfht_destroy(h, NULL)) ds_fail("child: destroy of the child's own emptied table failed");
}
static int tids[8];
static void scenario(void)
{
	int np = ds_prog_threads();
	long helpers = ds_cfg("helpers", 0), rt = ds_cfg("rt", 0) ? URCU_CALL_RCU_RT : 0;
	struct call_rcu_data *mine = NULL;
	FL_SET_MEMBARRIER((int)ds_cfg("membarrier", 1));
	F(register_thread)();
#ifdef FL_QSBR
	F(thread_offline)();
#endif
	if (helpers & 2) { if (F(create_all_cpu_call_rcu_data)(rt)) ds_bad_case("create_all_cpu_call_rcu_data failed"); ds_flag(CF_PERCPU); }
	if (helpers & 1) { mine = F(create_call_rcu_data)(rt, -1); F(set_thread_call_rcu_data)(mine); ds_flag(CF_PERTHREAD); }
	if (ds_cfg("ht", 0)) {
		ht = cds_lfht_new_flavor(1, 1, 0, CDS_LFHT_AUTO_RESIZE | (ds_cfg("ht", 0) > 1 ? CDS_LFHT_ACCOUNTING : 0), &F(flavor), NULL);
		if (!ht) ds_bad_case("cds_lfht_new failed");
	}
	int plain = (int)ds_cfg("plain", -1);
#ifdef FL_BP
	for (int t = 1; t < np && t < 8; t++) tids[t] = ds_spawn(t == plain ? plain_main : reader_main, (void *)(long)t);
#else
	(void)reader_main;
	if (plain > 0 && plain < np) tids[plain] = ds_spawn(plain_main, (void *)(long)plain);
#endif
	for (int i = 0; i < ds_nops(0); i++) {
		long a0; int op = fetch(0, i, &a0);
		ds_op_begin(i);
		switch (op) {
		case OP_CALLRCU: { int c = new_cb(); RLOCK(); F(call_rcu)(&cbs[c].rh, cb_fn); RUNLOCK(); break; }
		case OP_HTADD: if (ht) { ht_add((int)a0); ds_flag(CF_HT_RESIZE_QUEUED); } break;
		case OP_SYNC: F(synchronize_rcu)(); break;
		case OP_BARRIER: F(barrier)(); break;
		case OP_LOCK: RLOCK(); break;
		case OP_UNLOCK: RUNLOCK(); break;
		case OP_FORK: do_fork(); break;
		case OP_YIELD: ds_yield(); break;
		default: ds_bad_case("fork: op not valid in T0");
		}
	}
	ds_op_begin(99);
#ifdef FL_BP
	for (int t = 1; t < np && t < 8; t++) ds_join(tids[t]);
#else
	if (plain > 0 && plain < np) ds_join(tids[plain]);
#endif
	if (late_ht) { if (cds_lfht_destroy(late_ht, NULL)) ds_fail("parent: destroy of the (empty) table created by the plain thread failed"); }
	F(barrier)();
	check_all_ran_once("parent");
	if (ht) ht_check_and_empty("parent");
	if (mine) { F(set_thread_call_rcu_data)(NULL); F(call_rcu_data_free)(mine); }
	if (helpers & 2) F(free_all_cpu_call_rcu_data)();
#ifndef FL_BP
	F(unregister_thread)();
#endif
	ds_done();
}
DS_SCENARIO(FLSCEN("fork"), scenario)
