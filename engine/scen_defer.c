/*
 * Scenario "defer_<flavor>": defer_rcu() queues, barriers, the background reclaimer, (re-)registration.  Serves C13.   DS_PER_FLAVOR
 *
 * DEFER_QUEUE_SIZE is 8 (hook) so the ring wraps and the full-queue flush runs within a few operations.
 *   dreg | dunreg          rcu_defer_register_thread / rcu_defer_unregister_thread
 *   defer f a              defer_rcu(fn[thread][f], ARG(a)); f 0,1: ordinary functions, f 2,3: functions at odd addresses (low bit set);
 *                          a selects the argument bit pattern: 0 -> 0, 1 -> 1, 2 -> ~0, 3 -> ~1 (the internal marker), 4 -> odd unique value,
 *                          5 -> aligned unique value, 6 -> heap pointer, 7 -> the previous argument again
 *   dbar | dbart           rcu_defer_barrier / rcu_defer_barrier_thread
 *   lock | unlock          read-side critical section (qsbr: online/offline)
 *   wait                   spin (no API call) until every call queued by this thread has run: only the background reclaimer can do that
 *   yield
 * Each thread has its own four callback functions, so every invocation identifies the queue it came from.
 *
 * Oracle: each invocation must be the *next* queued (function, argument) pair of its thread (exactly once, in order, exact bit pattern); every
 * read-side section that was open when defer_rcu() was called has ended when the call runs; after rcu_defer_barrier(), rcu_defer_barrier_thread()
 * or rcu_defer_unregister_thread() returns, everything the calling thread queued before has run; at the end nothing is left; registering
 * again after unregistering works.  Termination (lost wake-up of the reclaimer, deadlock) is judged by the engine.
 */
#define _GNU_SOURCE
#include <pthread.h>
#include <stdio.h>
#include <stdlib.h>
#include <string.h>
#include <unistd.h>
#include "flavor.h"
#include "ds.h"

#define NS __attribute__((no_sanitize_thread, noinline))
#define MAXTH 4
#define MAXENT 80
#define MAXSEC 64
enum { CF_WRAPPED = 0, CF_SPECIAL_ARG = 1, CF_ODD_FN = 2, CF_FN_CHANGE = 3, CF_RECLAIMER_RAN = 4, CF_SECTION_OPEN_AT_DEFER = 5, CF_REREGISTER = 6,
       CF_FLUSH_IN_DEFER = 7, CF_WAITED_FOR_RECLAIMER = 8, CF_BARRIER_RAN_OTHERS = 9 };

#ifdef FL_QSBR
# define RLOCK() F(thread_online)()
# define RUNLOCK() F(thread_offline)()
#else
# define RLOCK() F(read_lock)()
# define RUNLOCK() F(read_unlock)()
#endif

struct entry { int f; unsigned long arg; unsigned long q_step; int open[8]; int nopen; int done; unsigned long run_step; };
static struct entry ent[MAXTH][MAXENT]; static int nent[MAXTH], ndone[MAXTH];
static int sec_open[MAXSEC]; static int nsec;	/* sec_open[id] = 1 while section id is open */
static int cur_sec[MAXTH][4], depth[MAXTH];
static int in_defer[MAXTH], regcount[MAXTH], dregistered[MAXTH];
static unsigned long uniq;

static NS int sec_begin(void) { int t = ds_scen_index(); int id = ++nsec; if (id >= MAXSEC) ds_bad_case("too many sections"); sec_open[id] = 1; cur_sec[t][depth[t]++] = id; return id; }
static NS void sec_end(void) { int t = ds_scen_index(); sec_open[cur_sec[t][--depth[t]]] = 0; }

static NS void invoked(int owner, int f, void *p)
{
	if (ds_scen_index() < 0) ds_flag(CF_RECLAIMER_RAN);
	else if (ds_scen_index() != owner) ds_flag(CF_BARRIER_RAN_OTHERS);
	else if (in_defer[owner]) ds_flag(CF_FLUSH_IN_DEFER);
	if (ndone[owner] >= nent[owner])
		ds_fail("deferred call fn%d(%p) of T%d invoked although every call queued by T%d has already run: invoked twice, or a call that was never queued", f, p, owner, owner);
	struct entry *e = &ent[owner][ndone[owner]];
	if (e->f != f || e->arg != (unsigned long)p)
		ds_fail("deferred calls of T%d: invocation #%d is fn%d(0x%lx) but the next queued pair is fn%d(0x%lx): wrong order, wrong function or wrong argument bits",
			owner, ndone[owner], f, (unsigned long)p, e->f, e->arg);
	for (int i = 0; i < e->nopen; i++)
		if (sec_open[e->open[i]])
			ds_fail("deferred call fn%d(0x%lx) of T%d, queued at step %lu, ran at step %lu while read-side section %d, which was open when defer_rcu() was called, is still open",
				f, e->arg, owner, e->q_step, ds_now(), e->open[i]);
	e->done = 1; e->run_step = ds_now();
	ndone[owner]++;
}
#define CB(t, f) void cb_##t##_##f(void *p) __asm__("dcb_" #t "_" #f "_" FLNAME) __attribute__((used)); void cb_##t##_##f(void *p) { invoked(t, f, p); }
CB(1, 0) CB(1, 1) CB(1, 2) CB(1, 3) CB(2, 0) CB(2, 1) CB(2, 2) CB(2, 3) CB(3, 0) CB(3, 1) CB(3, 2) CB(3, 3)
/* functions at odd addresses: DQ_IS_FCT_BIT(fct) is true for them */
#define ODD(t, f) __asm__(".text\n.balign 16\nnop\n.globl odd_" #t "_" #f "_" FLNAME "\n.type odd_" #t "_" #f "_" FLNAME ", @function\nodd_" #t "_" #f "_" FLNAME ":\njmp dcb_" #t "_" #f "_" FLNAME "\n"); \
	extern void odd_##t##_##f(void *) __asm__("odd_" #t "_" #f "_" FLNAME);
ODD(1, 2) ODD(1, 3) ODD(2, 2) ODD(2, 3) ODD(3, 2) ODD(3, 3)
typedef void (*dfn)(void *);
static dfn fns[MAXTH][4] = { { 0 }, { cb_1_0, cb_1_1, odd_1_2, odd_1_3 }, { cb_2_0, cb_2_1, odd_2_2, odd_2_3 }, { cb_3_0, cb_3_1, odd_3_2, odd_3_3 } };
static void *keep_refs[] = { (void *)cb_1_2, (void *)cb_1_3, (void *)cb_2_2, (void *)cb_2_3, (void *)cb_3_2, (void *)cb_3_3 };

static NS unsigned long mk_arg(int a, int t)
{
	static unsigned long last[MAXTH];
	unsigned long v;
	switch (a) {
	case 0: v = 0; break;
	case 1: v = 1; break;
	case 2: v = ~0ul; break;
	case 3: v = ~1ul; break;
	case 4: v = (++uniq << 8) | 0x11; break;
	case 5: v = (++uniq << 8) | 0x10; break;
	case 6: v = 0x500000001000ul + (++uniq << 4); break;
	default: v = last[t]; break;
	}
	last[t] = v;
	return v;
}
static NS void q_begin(int t, int f, unsigned long arg)
{
	if (nent[t] >= MAXENT) ds_bad_case("too many deferred calls");
	struct entry *e = &ent[t][nent[t]];
	memset(e, 0, sizeof *e);
	e->f = f; e->arg = arg; e->q_step = ds_now();
	for (int id = 1; id <= nsec && e->nopen < 8; id++) if (sec_open[id]) e->open[e->nopen++] = id;
	if (e->nopen) ds_flag(CF_SECTION_OPEN_AT_DEFER);
	if ((arg & 1) || arg == ~1ul) ds_flag(CF_SPECIAL_ARG);
	if (f >= 2) ds_flag(CF_ODD_FN);
	if (nent[t] && ent[t][nent[t] - 1].f != f) ds_flag(CF_FN_CHANGE);
	/* classification only: ring slots this entry takes, mirroring the documented encoding (data | fct+data | marker+fct+data) */
	{
		static unsigned long slots[MAXTH]; static int lastf[MAXTH] = { -1, -1, -1, -1 };
		int n = 1;
		if (lastf[t] != f || (arg & 1) || arg == ~1ul) n += f >= 2 ? 2 : 1;
		lastf[t] = f; slots[t] += n;
		if (slots[t] > 8) ds_flag(CF_WRAPPED);	/* DEFER_QUEUE_SIZE 8: the ring index wrapped */
	}
	nent[t]++;
	in_defer[t] = 1;
}
static NS void q_end(int t) { in_defer[t] = 0; }
static NS int all_done(int t) { return ndone[t] == nent[t]; }
static NS void must_be_done(int t, int upto, const char *what)
{
	if (ndone[t] < upto)
		ds_fail("%s returned to T%d although only %d of the %d calls T%d had queued before have run (next pending: fn%d(0x%lx))", what, t, ndone[t], upto, t, ent[t][ndone[t]].f, ent[t][ndone[t]].arg);
}
static NS int queued(int t) { return nent[t]; }
static NS void set_dreg(int t, int v) { dregistered[t] = v; if (v && regcount[t]++) ds_flag(CF_REREGISTER); }
static NS int is_dreg(int t) { return dregistered[t]; }

enum { OP_DREG, OP_DUNREG, OP_DEFER, OP_DBAR, OP_DBART, OP_LOCK, OP_UNLOCK, OP_WAIT, OP_YIELD, OP_BAD };
static NS int fetch(int t, int i, long *a)
{
	static const char *names[] = { "dreg", "dunreg", "defer", "dbar", "dbart", "lock", "unlock", "wait", "yield" };
	const struct ds_op *o = ds_op(t, i);
	a[0] = o->a[0]; a[1] = o->a[1];
	for (int k = 0; k < OP_BAD; k++) if (!strcmp(o->name, names[k])) return k;
	ds_bad_case("defer: unknown op %s", o->name);
}
static void *thread_main(void *arg)
{
	int t = (int)(long)arg;
	int n = ds_nops(t);
	F(register_thread)();
#ifdef FL_QSBR
	F(thread_offline)();
#endif
	for (int i = 0; i < n; i++) {
		long a[2];
		int op = fetch(t, i, a);
		ds_op_begin(i);
		switch (op) {
		case OP_DREG: { int r = F(defer_register_thread)(); if (r) ds_fail("rcu_defer_register_thread returned %d", r); set_dreg(t, 1); break; }
		case OP_DUNREG: { int upto = queued(t); F(defer_unregister_thread)(); set_dreg(t, 0); must_be_done(t, upto, "rcu_defer_unregister_thread()"); break; }
		case OP_DEFER: {
			if (!is_dreg(t)) ds_bad_case("defer on unregistered thread");
			unsigned long v = mk_arg((int)a[1], t);
			q_begin(t, (int)a[0] & 3, v);
			F(defer_rcu)(fns[t][a[0] & 3], (void *)v);
			q_end(t);
			break;
		}
		case OP_DBAR: { int upto = queued(t); F(defer_barrier)(); must_be_done(t, upto, "rcu_defer_barrier()"); break; }
		case OP_DBART: { int upto = queued(t); F(defer_barrier_thread)(); must_be_done(t, upto, "rcu_defer_barrier_thread()"); break; }
		case OP_LOCK: RLOCK(); sec_begin(); break;
		case OP_UNLOCK: sec_end(); RUNLOCK(); break;
		case OP_WAIT: if (!all_done(t)) { ds_flag(CF_WAITED_FOR_RECLAIMER); while (!all_done(t)) ds_yield(); } break;
		case OP_YIELD: ds_yield(); break;
		}
	}
	ds_op_begin(-1);
#ifndef FL_BP
	F(unregister_thread)();
#endif
	return NULL;
}
static int tids[MAXTH];
static void scenario(void)
{
	int np = ds_prog_threads();
	(void)keep_refs;
	if (np > MAXTH) ds_bad_case("too many threads");
	FL_SET_MEMBARRIER((int)ds_cfg("membarrier", 1));
	for (int t = 1; t < np; t++) tids[t] = ds_spawn(thread_main, (void *)(long)t);
	for (int t = 1; t < np; t++) ds_join(tids[t]);
	for (int t = 1; t < np; t++)
		if (!all_done(t)) ds_fail("at the end (T%d unregistered) %d of the %d calls it queued have not run", t, nent[t] - ndone[t], nent[t]);
	ds_done();
}
DS_SCENARIO(FLSCEN("defer"), scenario)
