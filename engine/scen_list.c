/*
 * Scenario "list_<flavor>": RCU-protected linked lists (cds_list_*_rcu, cds_hlist_*_rcu).  Serves C18.   DS_PER_FLAVOR
 *
 * cfg: kind (0 cds_list, 1 cds_hlist)  freemode (0 free removed nodes at the end, 1 synchronize_rcu()+free right after the removal, 2 call_rcu)
 * Updates are mutually excluded by one mutex (any thread may update); traversals run inside read-side critical sections.
 *   add | addt            cds_list_add_rcu / cds_list_add_tail_rcu (hlist: cds_hlist_add_head_rcu for both) of a fresh node whose payload is initialised and whose link fields hold stale pointers (to an object no traversal may reach)
 *   del i                 cds_list_del_rcu / cds_hlist_del_rcu of the (i mod length)-th node
 *   repl i                cds_list_replace_rcu of the (i mod length)-th node by a fresh node (hlist: del)
 *   trav v                one traversal inside a section; v selects the iterator macro (list: 0 for_each_rcu, 1 for_each_entry_rcu;
 *                         hlist: 0 for_each_rcu, 1 for_each_entry_rcu, 2 for_each_entry_rcu_2)
 *   yield
 * T0's operations run before the other threads are spawned.
 *
 * Oracle (every traversal, with its call/return steps a..b against the update log): terminates within 4 x (nodes ever created) visits; every visited
 * node is a user node with intact payload (id/checksum written before publication); visits are strictly increasing in list order (a total order over
 * all nodes ever inserted: head insertions go to the front, tail insertions to the back, a replacement takes the place of the node it replaces), hence
 * no node twice; every node whose insertion returned before a and whose removal was not called before b is visited; every visited node's insertion was
 * called before b and its removal had not returned before a.  Shadow heap: a node freed a grace period after its removal is never touched.
 */
#define _GNU_SOURCE
#include <pthread.h>
#include <stdio.h>
#include <stdlib.h>
#include <string.h>
#include <unistd.h>
#include "flavor.h"
#include <urcu/call-rcu.h>
#include <urcu/rculist.h>
#include <urcu/rcuhlist.h>
#include "ds.h"

#define NS __attribute__((no_sanitize_thread, noinline))
#define MAXN 48
#define MAXTRAV 64
enum { CF_TRAV_OVERLAP_UPDATE = 0, CF_TRAV_SAW_REMOVED = 1, CF_FREED = 2, CF_TRAV_MISSED_TRANSIENT = 3, CF_NONEMPTY_TRAV = 4 };

#ifdef FL_QSBR
# define RLOCK() F(thread_online)()
# define RUNLOCK() F(thread_offline)()
#else
# define RLOCK() F(read_lock)()
# define RUNLOCK() F(read_unlock)()
#endif

struct lnode {
	struct cds_list_head l;
	struct cds_hlist_node h;
	struct rcu_head rh;
	unsigned long id, chk;
};

static struct lnode stale_target;
static CDS_LIST_HEAD(lhead);
static struct cds_hlist_head hhead;
static pthread_mutex_t upd_lock = PTHREAD_MUTEX_INITIALIZER;
static int kind, free_mode;

/* ---- model and logs (uninstrumented) ---- */
static struct lnode *nodes[MAXN];
static unsigned long ins_call[MAXN], ins_ret[MAXN], rem_call[MAXN], rem_ret[MAXN];
static int nnodes;				/* ids 1..nnodes */
static int cur[MAXN], ncur;			/* current list contents, in order */
static int master[MAXN], nmaster;		/* list order over all nodes ever inserted */
static int to_free[MAXN], nto_free;
static int repl_of[MAXN];			/* repl_of[new] = old for cds_list_replace_rcu */
struct trav { int thr; unsigned long call, ret; int v[MAXN * 4 + 4]; int nv; };
static struct trav travs[MAXTRAV]; static int ntrav;

static NS int new_id(void) { if (nnodes + 1 >= MAXN) ds_bad_case("too many nodes"); int id = ++nnodes; ins_call[id] = ins_ret[id] = rem_call[id] = rem_ret[id] = ~0ul; return id; }
static NS void set_node(int id, struct lnode *n) { nodes[id] = n; }
static NS struct lnode *get_node(int id) { return nodes[id]; }
static NS int master_pos(int id) { for (int i = 0; i < nmaster; i++) if (master[i] == id) return i; return -1; }
static NS void master_insert(int pos, int id) { memmove(&master[pos + 1], &master[pos], sizeof(int) * (nmaster - pos)); master[pos] = id; nmaster++; }
static NS void cur_insert(int pos, int id) { memmove(&cur[pos + 1], &cur[pos], sizeof(int) * (ncur - pos)); cur[pos] = id; ncur++; }
static NS void cur_remove(int pos) { memmove(&cur[pos], &cur[pos + 1], sizeof(int) * (ncur - pos - 1)); ncur--; }
static NS int cur_len(void) { return ncur; }
static NS int cur_at(int i) { return cur[i]; }
static NS void m_ins_begin(int id, int where, int at_id)
{
	/* where: 0 head, 1 tail, 2 in place of at_id */
	ins_call[id] = ds_now();
	if (where == 0) { master_insert(0, id); cur_insert(0, id); }
	else if (where == 1) { master_insert(nmaster, id); cur_insert(ncur, id); }
	else {
		master_insert(master_pos(at_id) + 1, id); repl_of[id] = at_id;
		for (int i = 0; i < ncur; i++) if (cur[i] == at_id) { cur[i] = id; break; }
	}
}
static NS void m_ins_end(int id) { ins_ret[id] = ds_now(); }
static NS void m_rem_begin(int id, int drop_from_cur) { rem_call[id] = ds_now(); if (drop_from_cur) for (int i = 0; i < ncur; i++) if (cur[i] == id) { cur_remove(i); break; } }
static NS void m_rem_end(int id) { rem_ret[id] = ds_now(); }
static NS void defer_free(int id) { to_free[nto_free++] = id; }
static NS int pop_free(void) { return nto_free ? to_free[--nto_free] : 0; }
static NS void note(int bit) { ds_flag(bit); }

static NS struct trav *t_begin(void)
{
	if (ntrav >= MAXTRAV) ds_bad_case("too many traversals");
	struct trav *t = &travs[ntrav++];
	t->thr = ds_scen_index(); t->call = ds_now(); t->ret = ~0ul; t->nv = 0;
	return t;
}
static NS void t_visit(struct trav *t, struct lnode *n)
{
	if (t->nv >= 4 * (nnodes + 1)) ds_fail("traversal by T%d does not terminate: %d visits with only %d nodes ever created", t->thr, t->nv, nnodes);
	int hs = ds_heap_state(n);
	if (hs != 1) ds_fail("traversal by T%d reached pointer %p which is not a live node (heap state %d)", t->thr, (void *)n, hs);
	if (n->chk != ~n->id || n->id < 1 || n->id > (unsigned long)nnodes || nodes[n->id] != n)
		ds_fail("traversal by T%d reached node %p with inconsistent contents id=%lx chk=%lx: published before it was fully initialised, or not a list node", t->thr, (void *)n, n->id, n->chk);
	t->v[t->nv++] = (int)n->id;
}
static NS void t_end(struct trav *t) { t->ret = ds_now(); if (t->nv) ds_flag(CF_NONEMPTY_TRAV); }

static NS void print_seq(char *b, size_t n, const int *v, int nv) { size_t o = 0; b[0] = 0; for (int i = 0; i < nv && o + 8 < n; i++) o += snprintf(b + o, n - o, "%d ", v[i]); }
static NS void check_traversals(void)
{
	char b1[400], b2[400];
	for (int k = 0; k < ntrav; k++) {
		struct trav *t = &travs[k];
		if (t->ret == ~0ul) continue;
		print_seq(b1, sizeof b1, t->v, t->nv); print_seq(b2, sizeof b2, master, nmaster);
		int last = -1;
		unsigned char seen[MAXN] = { 0 };
		for (int i = 0; i < t->nv; i++) {
			int id = t->v[i], p = master_pos(id);
			if (p <= last)
				ds_fail("traversal #%d by T%d (steps %lu-%lu) visited nodes out of list order or twice: visited [%s], list order over all nodes [%s]", k, t->thr, t->call, t->ret, b1, b2);
			last = p; seen[id] = 1;
			if (ins_call[id] > t->ret)
				ds_fail("traversal #%d by T%d (steps %lu-%lu) visited node %d whose insertion was only called at step %lu", k, t->thr, t->call, t->ret, id, ins_call[id]);
			if (rem_ret[id] < t->call)
				ds_fail("traversal #%d by T%d (steps %lu-%lu) visited node %d although its removal had returned at step %lu, before the traversal began", k, t->thr, t->call, t->ret, id, rem_ret[id]);
			if (rem_call[id] < t->ret) ds_flag(CF_TRAV_SAW_REMOVED);
		}
		for (int id = 1; id <= nnodes; id++) {
			if (ins_ret[id] < t->call && rem_call[id] > t->ret && !seen[id])
				ds_fail("traversal #%d by T%d (steps %lu-%lu) missed node %d, which was in the list for the whole traversal (inserted by step %lu, removal %s): visited [%s]",
					k, t->thr, t->call, t->ret, id, ins_ret[id], rem_call[id] == ~0ul ? "never" : "later", b1);
			/* a replacement is atomic: a traversal that spans it sees the old or the new node */
			if (repl_of[id] && !seen[id] && !seen[repl_of[id]] && ins_ret[repl_of[id]] < t->call && rem_call[id] > t->ret)
				ds_fail("traversal #%d by T%d (steps %lu-%lu) saw neither node %d nor node %d which replaced it: visited [%s]", k, t->thr, t->call, t->ret, repl_of[id], id, b1);
			/* class: an update on this node overlapped the traversal */
			if ((ins_call[id] <= t->ret && ins_ret[id] >= t->call) || (rem_call[id] != ~0ul && rem_call[id] <= t->ret && rem_ret[id] >= t->call)) ds_flag(CF_TRAV_OVERLAP_UPDATE);
		}
	}
}

static struct lnode *mk_node(int id)
{
	struct lnode *n = malloc(sizeof *n);
	n->id = (unsigned long)id; n->chk = ~(unsigned long)id;
	/* the add functions take an uninitialised link field (recycled memory, or a node re-inserted after a removal and a grace period): whatever
	 * it holds must never become reachable; it points at a static object that no traversal may ever visit */
	n->l.next = n->l.prev = &stale_target.l; n->h.next = n->h.prev = &stale_target.h;
	set_node(id, n);
	return n;
}
static void free_cb(struct rcu_head *h) { struct lnode *n = caa_container_of(h, struct lnode, rh); n->id = 0xdead; n->chk = 0xdead; free(n); }
static void reclaim(int id)
{
	struct lnode *n = get_node(id);
	if (free_mode == 0) { defer_free(id); return; }
	note(CF_FREED);
	if (free_mode == 2) { F(call_rcu)(&n->rh, free_cb); return; }
	F(synchronize_rcu)();
	n->id = 0xdead; n->chk = 0xdead;
	free(n);
}

static void do_add(int tail)
{
	pthread_mutex_lock(&upd_lock);
	int id = new_id();
	struct lnode *n = mk_node(id);
	m_ins_begin(id, (kind == 0 && tail) ? 1 : 0, 0);
	if (kind == 0) { if (tail) cds_list_add_tail_rcu(&n->l, &lhead); else cds_list_add_rcu(&n->l, &lhead); }
	else cds_hlist_add_head_rcu(&n->h, &hhead);
	pthread_mutex_unlock(&upd_lock);
	m_ins_end(id);	/* after the unlock: the publishing store may sit in the updater's store buffer (x86-TSO) until a serialising operation */
}
static void do_del(long i, int replace)
{
	int victim = 0, newid = 0;
	pthread_mutex_lock(&upd_lock);
	int len = cur_len();
	if (len) {
		victim = cur_at((int)(i % len));
		struct lnode *o = get_node(victim);
		if (replace && kind == 0) {
			int id = new_id();
			struct lnode *n = mk_node(id);
			m_rem_begin(victim, 0); m_ins_begin(id, 2, victim);
			cds_list_replace_rcu(&o->l, &n->l);
			newid = id;
		} else {
			m_rem_begin(victim, 1);
			if (kind == 0) cds_list_del_rcu(&o->l); else cds_hlist_del_rcu(&o->h);
		}
	}
	pthread_mutex_unlock(&upd_lock);
	if (newid) m_ins_end(newid);
	if (victim) m_rem_end(victim);
	if (victim) reclaim(victim);
}
static void do_trav(int v)
{
	RLOCK();
	struct trav *t = t_begin();
	if (kind == 0) {
		if (v == 0) { struct cds_list_head *pos; cds_list_for_each_rcu(pos, &lhead) t_visit(t, cds_list_entry(pos, struct lnode, l)); }
		else { struct lnode *n; cds_list_for_each_entry_rcu(n, &lhead, l) t_visit(t, n); }
	} else {
		struct cds_hlist_node *pos; struct lnode *n;
		if (v == 0) { cds_hlist_for_each_rcu(pos, &hhead) t_visit(t, cds_hlist_entry(pos, struct lnode, h)); }
		else if (v == 1) { cds_hlist_for_each_entry_rcu(n, pos, &hhead, h) t_visit(t, n); }
		else { cds_hlist_for_each_entry_rcu_2(n, &hhead, h) t_visit(t, n); }
	}
	t_end(t);
	RUNLOCK();
}

enum { OP_ADD, OP_ADDT, OP_DEL, OP_REPL, OP_TRAV, OP_YIELD, OP_BAD };
static NS int fetch(int t, int i, long *a0)
{
	static const char *names[] = { "add", "addt", "del", "repl", "trav", "yield" };
	const struct ds_op *o = ds_op(t, i);
	*a0 = o->a[0];
	for (int k = 0; k < OP_BAD; k++) if (!strcmp(o->name, names[k])) return k;
	ds_bad_case("list: unknown op %s", o->name);
}
static void run_program(int t)
{
	int n = ds_nops(t);
	for (int i = 0; i < n; i++) {
		long a0;
		int op = fetch(t, i, &a0);
		ds_op_begin(i);
		switch (op) {
		case OP_ADD: do_add(0); break;
		case OP_ADDT: do_add(1); break;
		case OP_DEL: do_del(a0, 0); break;
		case OP_REPL: do_del(a0, 1); break;
		case OP_TRAV: do_trav((int)a0); break;
		case OP_YIELD: ds_yield(); break;
		}
	}
	ds_op_begin(-1);
}
static void *thread_main(void *arg)
{
	F(register_thread)();
#ifdef FL_QSBR
	F(thread_offline)();
#endif
	run_program((int)(long)arg);
#ifndef FL_BP
	F(unregister_thread)();
#endif
	return NULL;
}
static int tids[8];
static void scenario(void)
{
	int np = ds_prog_threads();
	kind = (int)ds_cfg("kind", 0); free_mode = (int)ds_cfg("freemode", 0);
	FL_SET_MEMBARRIER((int)ds_cfg("membarrier", 1));
	CDS_INIT_HLIST_HEAD(&hhead);
	F(register_thread)();
#ifdef FL_QSBR
	F(thread_offline)();
#endif
	run_program(0);
	for (int t = 1; t < np && t < 8; t++) tids[t] = ds_spawn(thread_main, (void *)(long)t);
	for (int t = 1; t < np && t < 8; t++) ds_join(tids[t]);
	ds_op_begin(99);
	do_trav(0);	/* quiescent traversal: exactly the final contents (covered by the same oracle: everything resident must be visited) */
	check_traversals();
	{
		struct trav *t = &travs[ntrav - 1];
		if (t->nv != cur_len()) ds_fail("final traversal visited %d nodes, the model holds %d", t->nv, cur_len());
		for (int i = 0; i < t->nv; i++) if (t->v[i] != cur_at(i)) ds_fail("final traversal differs from the model at position %d: node %d vs %d", i, t->v[i], cur_at(i));
	}
	F(synchronize_rcu)();
	if (free_mode == 2) F(barrier)();
	{ int id; while ((id = pop_free())) free(get_node(id)); }
#ifndef FL_BP
	F(unregister_thread)();
#endif
	ds_done();
}
DS_SCENARIO(FLSCEN("list"), scenario)
