/*
 * dsched runtime: deterministic controlled-concurrency engine (DESIGN.md §2).
 *
 * NOT instrumented. Provides: the __tsan_* entry points emitted by
 * -fsanitize=thread for the code under test, a baton scheduler over real
 * pthreads, x86-TSO store buffers, --wrap'ed libc/kernel entry points with
 * fault injection, a shadow heap, signal injection, freeze/solo mode, the
 * event log and the fork server.
 */
#define _GNU_SOURCE
#include <pthread.h>
#include <signal.h>
#include <limits.h>
#include <stdint.h>
#include <stdio.h>
#include <stdlib.h>
#include <string.h>
#include <errno.h>
#include <unistd.h>
#include <poll.h>
#include <sched.h>
#include <stdarg.h>
#include <fcntl.h>
#include <sys/mman.h>
#include <sys/wait.h>
#include <sys/syscall.h>
#include <sys/personality.h>
#include <linux/futex.h>
#include "ds.h"

#define MAXT 128
#define SBMAX 64
#define MAXPROG 16
#define MAXOPS 64
#define MAXLIST 32
#define MAXEV 16384

enum { ST_UNUSED, ST_RUN, ST_BLOCK, ST_FIN, ST_FROZEN, ST_GONE };
enum { BK_NONE, BK_MUTEX, BK_FUTEX, BK_JOIN, BK_GATE, BK_COND, BK_STALL, BK_THAW };

struct sbent { uintptr_t addr; int size; uint64_t val; int hold; };

struct thr {
	int id, state, bkind; void *bobj;
	int baton;
	long prio;
	struct sbent sb[SBMAX]; int sbn;
	void *(*fn)(void *); void *arg; void *ret;
	pthread_t pt;
	int daemon, scen_idx, daemon_idx;
	unsigned long lsteps, nstores;
	int cur_op; unsigned long op_pts;
	char *stack_hi;
	int in_sig;
	int frozen_was;
	unsigned long yields;
	unsigned long op_stores; int sb_cp_pending, demote_at_next;
	int stack_shared;
	unsigned long stall_until;
	int exiting; unsigned long exit_base;	/* the start routine has returned; lsteps at that moment */	/* another thread has accessed an object on this thread's stack (e.g. a urcu_wait node) */
	unsigned long run_since_switch;	/* scheduling points taken since this thread last yielded, blocked or was preempted */
	unsigned long empt[256]; int nempt;	/* steps at which this thread's store buffer became empty */
};

static struct thr T[MAXT];
static int nT, nScen;
static __thread struct thr *self;
static __thread int in_rt;
static __thread int bulk;	/* ds_bulk(): this thread's accesses are not scheduling points and are not buffered */
static int active;
static unsigned long ds_step;
static unsigned long max_steps = 60000;
static long min_prio = 0, max_prio = 1000000;
static unsigned long writes_epoch, last_progress_step;
#define BULK_MAX 20000000ul
static unsigned long bulk_steps, bulk_last_write;
static unsigned long NOPROG = 6000;	/* cfg noprog: cases with long read-only stretches (hundreds of resident nodes) raise it */
#define SLICE 1000
static uint64_t flags;
static int trace;
static int result_fd = 2;
static pid_t case_pid;

/* ---- case ---- */
static char scen_name[64];
static struct { char key[32]; long val; } cfgs[64]; static int ncfg;
static struct ds_op prog[MAXPROG][MAXOPS]; static int nops[MAXPROG]; static int nprog;
static long prio_list[MAXLIST]; static int nprio;
static long dprio_list[MAXLIST]; static int ndprio;
static struct { int tid, op; unsigned long k; } cps[MAXLIST]; static int ncp;
static struct { int tid; unsigned long j; int len; } delays[MAXLIST]; static int ndelay;
/* delay2: the k-th bufferable store a thread executes during program operation `op` is held for `len` of its scheduling points; with cp set the
 * thread is preempted right after its next atomic load while that store is still buffered - the store-buffer litmus window (store; load; others run) */
static struct { int tid, op; unsigned long k; int len, cp; } delays2[MAXLIST]; static int ndelay2;
/* stall: a bounded preemption - thread t is descheduled at the k-th scheduling point of its operation `op` for n global steps (or until nothing else
 * can run), then resumes with the highest priority. Unlike a change point (which lets every other thread run until it blocks), the others get to do
 * only part of their work before t is back. */
static struct { int tid, op; unsigned long k; unsigned long n; int used; } stalls[MAXLIST]; static int nstall;
/* harass t op u: while thread t is inside its operation `op`, every scheduling point of t is followed by thread u running up to its next unit boundary
 * (the end of one of its operations, ds_unit()), then t again (`harass t op u e`: only after every e-th scheduling point of t, e.g. once per
 * iteration of a retry loop): the densest interference one other thread can produce. Lets a retry loop lose
 * its compare-and-swap on every iteration for as long as u has work. */
static struct { int on, t, op, u, pending, every; unsigned long rounds; } harass;
static struct { int tid; unsigned long k; int at_exit; } sigs[MAXLIST]; static int nsig;
static struct { char kind[24]; long k; } faults[MAXLIST]; static int nfault;
static uint64_t rw_rng; static int rw_permille;
static uint64_t rd_rng; static int rd_pct, rd_maxlen = 40;
static unsigned long freeze_step; static int freeze_solo = -1; static int solo_on;
static unsigned long solo_yields;
int ds_membarrier_available = 1;

static ds_scenario_fn scen_fns[64]; static const char *scen_names[64]; static int nscen;
void ds_register_scenario(const char *name, ds_scenario_fn fn) { scen_names[nscen] = name; scen_fns[nscen++] = fn; }

struct ds_event ds_evs[MAXEV];
int ds_nev;

extern int __real_pthread_create(pthread_t *, const pthread_attr_t *, void *(*)(void *), void *);
extern int __real_pthread_join(pthread_t, void **);
extern int __real_pthread_mutex_lock(pthread_mutex_t *);
extern int __real_pthread_mutex_trylock(pthread_mutex_t *);
extern int __real_pthread_mutex_unlock(pthread_mutex_t *);
extern long __real_syscall(long, ...);
extern int __real_pthread_cond_wait(pthread_cond_t *, pthread_mutex_t *);
extern int __real_pthread_cond_signal(pthread_cond_t *);
extern int __real_pthread_cond_broadcast(pthread_cond_t *);
extern int __real_poll(struct pollfd *, nfds_t, int);
extern pid_t __real_fork(void);
extern void *__real_malloc(size_t);
extern void *__real_calloc(size_t, size_t);
extern void *__real_realloc(void *, size_t);
extern void __real_free(void *);
extern int __real_posix_memalign(void **, size_t, size_t);
extern int __real_sched_getcpu(void);
extern int __real_sched_setaffinity(pid_t, size_t, const cpu_set_t *);
extern int __real_open(const char *, int, ...);
extern void *__real_mremap(void *, size_t, size_t, int, ...);
extern void *__real_mmap(void *, size_t, int, int, int, off_t);
extern int __real_munmap(void *, size_t);
extern int __real_usleep(useconds_t);
extern unsigned int __real_sleep(unsigned int);
extern int __real_sched_yield(void);
extern int __real_pthread_sigmask(int, const sigset_t *, sigset_t *);
extern void __real_pthread_exit(void *) __attribute__((noreturn));

static uint64_t xs(uint64_t *s) { *s ^= *s << 13; *s ^= *s >> 7; *s ^= *s << 17; return *s; }

/* The baton operations are real futex calls made on behalf of the code under test at arbitrary scheduling points - also between a failed system
 * call of the library and its look at errno - so they must leave errno alone (a FUTEX_WAIT that finds the baton already passed fails with EAGAIN). */
static void fwait(int *a) { int e = errno; while (__atomic_load_n(a, __ATOMIC_ACQUIRE) == 0) __real_syscall(SYS_futex, a, FUTEX_WAIT_PRIVATE, 0, 0, 0, 0); __atomic_store_n(a, 0, __ATOMIC_RELAXED); errno = e; }
static void fwake(int *a) { int e = errno; __atomic_store_n(a, 1, __ATOMIC_RELEASE); __real_syscall(SYS_futex, a, FUTEX_WAKE_PRIVATE, 1, 0, 0, 0); errno = e; }

/* ---- result reporting ---- */
static void finish(const char *status, const char *fmt, va_list ap) __attribute__((noreturn));
static void finish(const char *status, const char *fmt, va_list ap)
{
	char msg[1024], out[1400];
	active = 0;
	vsnprintf(msg, sizeof msg, fmt, ap);
	for (char *p = msg; *p; p++) if (*p == '\n') *p = ' ';
	int n = snprintf(out, sizeof out, "RESULT %s %llx %lu %d %s\n", status, (unsigned long long)flags, ds_step, nT, msg);
	if (trace) {
		fprintf(stderr, "--- threads at end (step %lu):\n", ds_step);
		for (int i = 0; i < nT; i++)
			fprintf(stderr, "  E%d scen=%d state=%d bkind=%d prio=%ld sbn=%d daemon=%d lsteps=%lu op=%d\n", T[i].id, T[i].scen_idx, T[i].state, T[i].bkind, T[i].prio, T[i].sbn, T[i].daemon, T[i].lsteps, T[i].cur_op);
	}
	if (getpid() != case_pid) {
		/* forked child of the case (C16): verdict travels in the exit code; message on stderr */
		(void) !write(2, out, n);
		_exit(!strcmp(status, "ok") ? 0 : !strcmp(status, "budget") ? 23 : 21);
	}
	(void) !write(result_fd, out, n);
	_exit(0);
}
static void die(const char *status, const char *fmt, ...) __attribute__((noreturn));
static void die(const char *status, const char *fmt, ...) { va_list ap; va_start(ap, fmt); finish(status, fmt, ap); }
void ds_fail(const char *fmt, ...) { va_list ap; in_rt = 1; va_start(ap, fmt); finish("viol", fmt, ap); }
void ds_bad_case(const char *fmt, ...) { va_list ap; in_rt = 1; va_start(ap, fmt); finish("badcase", fmt, ap); }
void ds_done(void) { in_rt = 1; die("ok", "-"); }
/* a forked child ran out of step budget: the parent reports the same status, so that the driver re-runs the case with a 10x budget before calling it a hang */
void ds_child_budget(const char *msg) { in_rt = 1; die("budget", "%s", msg); }
void ds_note(const char *fmt, ...)
{
	if (!trace) return;
	int was = in_rt; in_rt = 1;
	va_list ap; va_start(ap, fmt);
	fprintf(stderr, "[%6lu E%d] ", ds_step, self ? self->id : -1);
	vfprintf(stderr, fmt, ap); fputc('\n', stderr);
	va_end(ap); in_rt = was;
}
static void describe_threads(char *buf, size_t n)
{
	size_t o = 0; buf[0] = 0;
	for (int i = 0; i < nT && o + 40 < n; i++)
		o += snprintf(buf + o, n - o, "E%d%s:%s%s ", i, T[i].daemon ? "d" : "",
			T[i].state == ST_RUN ? "run" : T[i].state == ST_FIN ? "fin" : T[i].state == ST_FROZEN ? "frz" : T[i].state == ST_GONE ? "gone" :
			T[i].bkind == BK_MUTEX ? "mutex" : T[i].bkind == BK_FUTEX ? "futex" : T[i].bkind == BK_JOIN ? "join" : T[i].bkind == BK_COND ? "cond" : "gate", "");
}

/* ---- API: case access ---- */
long ds_cfg(const char *key, long dflt) { for (int i = 0; i < ncfg; i++) if (!strcmp(cfgs[i].key, key)) return cfgs[i].val; return dflt; }
int ds_prog_threads(void) { return nprog; }
int ds_nops(int t) { return t < MAXPROG ? nops[t] : 0; }
const struct ds_op *ds_op(int t, int i) { return &prog[t][i]; }
unsigned long ds_now(void) { return ds_step; }
int ds_self(void) { return self ? self->id : -1; }
int ds_scen_index(void) { return self ? self->scen_idx : -1; }
void ds_flag(int bit) { flags |= 1ull << bit; }
unsigned long ds_my_steps(void) { return self->lsteps; }
void ds_ev(int kind, long a, long b)
{
	if (ds_nev >= MAXEV) die("badcase", "event log overflow");
	struct ds_event *e = &ds_evs[ds_nev++];
	e->thr = self ? self->id : -1; e->kind = kind; e->a = a; e->b = b; e->step = ds_step;
	if (trace) fprintf(stderr, "[%6lu E%d] ev kind=%d a=%ld b=%ld\n", ds_step, e->thr, kind, a, b);
}
int ds_i_am_solo(void);
void ds_op_begin(int i)
{
	/* C17: when the solo thread has run its whole program the case is over (thread exit paths may legitimately block on suspended threads) */
	if (i == -1 && ds_i_am_solo()) { in_rt = 1; die("ok", "solo thread finished its program"); }
	if (self) { self->cur_op = i; self->op_pts = 0; self->op_stores = 0; }
	ds_unit();
}
void *ds_raw_alloc(size_t n) { return __real_calloc(1, n); }

/* ---- shadow heap ---- */
/* the arena straddles a 4 GiB address line: with `cfg addrline K` the K-th allocation of the case is placed exactly on it (an address whose low 32 bits
 * are zero - node addresses are inputs of pointer-manipulating code: tag bits, casts, truncating conversions) */
#define ARENA_LINE ((char *)0x500000000000ul)
#define ARENA_BASE (ARENA_LINE - (1ul << 28))
#define ARENA_SIZE (1ul << 29)
#define SHADOW_BASE ((unsigned char *)0x510000000000ul)
static char *arena_cur;
static long addrline_k, arena_nalloc;
static int arena_ready;
struct ahdr { size_t size; void *site; void *fsite; uint64_t magic; };
#define AMAGIC 0xa110c8edfeedf00dull
static void arena_init(void)
{
	void *p = mmap(ARENA_BASE, ARENA_SIZE, PROT_READ | PROT_WRITE, MAP_PRIVATE | MAP_ANONYMOUS | MAP_NORESERVE | MAP_FIXED_NOREPLACE, -1, 0);
	void *s = mmap(SHADOW_BASE, ARENA_SIZE / 8, PROT_READ | PROT_WRITE, MAP_PRIVATE | MAP_ANONYMOUS | MAP_NORESERVE | MAP_FIXED_NOREPLACE, -1, 0);
	if (p != (void *)ARENA_BASE || s != (void *)SHADOW_BASE) { fprintf(stderr, "dsched: cannot map arena\n"); _exit(99); }
	arena_cur = ARENA_BASE + 64;
	arena_ready = 1;
}
static inline int in_arena(const void *p) { return (const char *)p >= ARENA_BASE && (const char *)p < ARENA_BASE + ARENA_SIZE; }
static void *arena_alloc(size_t n, size_t align, void *site)
{
	if (!arena_ready) arena_init();
	if (align < 16) align = 16;
	char *p = arena_cur + sizeof(struct ahdr) + 16;	/* red zone + header before */
	p = (char *)(((uintptr_t)p + align - 1) & ~(align - 1));
	if (addrline_k > 0 && active && self && ++arena_nalloc == addrline_k && p < ARENA_LINE && n <= 4096) { p = ARENA_LINE; flags |= 1ull << DSF_ADDRLINE; }
	size_t rn = (n + 15) & ~15ul;
	if (rn == 0) rn = 16;
	if (p + rn + 32 > ARENA_BASE + ARENA_SIZE) die("badcase", "arena exhausted");
	struct ahdr *h = (struct ahdr *)(p - sizeof(struct ahdr));
	h->size = n; h->site = site; h->fsite = NULL; h->magic = AMAGIC;
	memset(SHADOW_BASE + (p - ARENA_BASE) / 8, 1, (n + 7) / 8);
	arena_cur = p + rn + 16;
	return p;
}
static void arena_free(void *p, void *site)
{
	struct ahdr *h = (struct ahdr *)((char *)p - sizeof(struct ahdr));
	if (h->magic != AMAGIC) die("viol", "free() of invalid pointer %p (site %p)", p, site);
	unsigned char *sh = SHADOW_BASE + ((char *)p - ARENA_BASE) / 8;
	if (h->size && *sh == 2) die("viol", "double free of %p size %zu (alloc site %p, first free site %p, second %p)", p, h->size, h->site, h->fsite, site);
	h->fsite = site;
	memset(sh, 2, (h->size + 7) / 8);
	memset(p, 0xdd, h->size);
}
int ds_heap_state(const void *p) { if (!in_arena(p)) return -1; return SHADOW_BASE[((const char *)p - ARENA_BASE) / 8]; }
static void heap_violation(const void *a, int n, int w, int st)
{
	/* find the allocation header below */
	const char *p = (const char *)((uintptr_t)a & ~15ul);
	struct ahdr *h = NULL;
	for (int i = 0; i < 1 << 16 && p > ARENA_BASE; i++, p -= 16) {
		struct ahdr *c = (struct ahdr *)(p - sizeof(struct ahdr));
		if ((char *)c >= ARENA_BASE && c->magic == AMAGIC) { h = c; break; }
	}
	die("viol", "%s of %d bytes at %p: %s heap memory (block %p size %zu alloc-site %p free-site %p) by E%d op %d",
		w ? "write" : "read", n, a, st == 2 ? "FREED" : "unallocated", h ? (void *)(h + 1) : NULL, h ? h->size : 0, h ? h->site : NULL, h ? h->fsite : NULL,
		self ? self->id : -1, self ? self->cur_op : -1);
}
static inline void note_foreign_stack_access(const void *a)
{
	/* addresses above the mmap base only: thread stacks live there; arena, globals and the main program's heap do not */
	if ((uintptr_t)a < 0x7f0000000000ul || !self) return;
	for (int i = 0; i < nT; i++)
		if (&T[i] != self && T[i].stack_hi && (const char *)a < T[i].stack_hi && (const char *)a >= T[i].stack_hi - (256 << 10)) T[i].stack_shared = 1;
}
static inline void check_access(const void *a, int n, int w)
{
	if (active) note_foreign_stack_access(a);
	if (!in_arena(a) || !active) return;
	int st = SHADOW_BASE[((const char *)a - ARENA_BASE) / 8];
	if (st != 1) { in_rt = 1; heap_violation(a, n, w, st); }
}
/* malloc/realloc/posix_memalign memory is indeterminate: the arena hands out junk (0xa5..), never the zeroes a fresh mapping happens to hold, so code that
 * relies on recycled memory being clear behaves as it would in a long-running process */
#define JUNK 0xa5
void *__wrap_malloc(size_t n) { if (in_rt || !self) return __real_malloc(n); void *p = arena_alloc(n, 16, __builtin_return_address(0)); memset(p, JUNK, n); return p; }
void *__wrap_calloc(size_t a, size_t b) { if (in_rt || !self) return __real_calloc(a, b); void *p = arena_alloc(a * b, 16, __builtin_return_address(0)); memset(p, 0, a * b); return p; }
void __wrap_free(void *p) { if (!p) return; if (!in_arena(p)) { __real_free(p); return; } int was = in_rt; in_rt = 1; arena_free(p, __builtin_return_address(0)); in_rt = was; }
void *__wrap_realloc(void *p, size_t n)
{
	if (p && !in_arena(p)) return __real_realloc(p, n);
	if (in_rt || !self) return __real_realloc(p, n);
	void *q = arena_alloc(n, 16, __builtin_return_address(0));
	memset(q, JUNK, n);
	if (p) { struct ahdr *h = (struct ahdr *)((char *)p - sizeof(struct ahdr)); memcpy(q, p, h->size < n ? h->size : n); __wrap_free(p); }
	return q;
}
int __wrap_posix_memalign(void **out, size_t al, size_t n) { if (in_rt || !self) return __real_posix_memalign(out, al, n); *out = arena_alloc(n, al, __builtin_return_address(0)); memset(*out, JUNK, n); return 0; }

/* ---- store buffer ---- */
static void mem_store(uintptr_t addr, int size, uint64_t val)
{
	switch (size) {
	case 1: __atomic_store_n((uint8_t *)addr, (uint8_t)val, __ATOMIC_SEQ_CST); break;
	case 2: __atomic_store_n((uint16_t *)addr, (uint16_t)val, __ATOMIC_SEQ_CST); break;
	case 4: __atomic_store_n((uint32_t *)addr, (uint32_t)val, __ATOMIC_SEQ_CST); break;
	case 8: __atomic_store_n((uint64_t *)addr, (uint64_t)val, __ATOMIC_SEQ_CST); break;
	}
	writes_epoch++; last_progress_step = ds_step; bulk_last_write = bulk_steps;
}
static void sb_flush_one(struct thr *t)
{
	struct sbent *e = &t->sb[0];
	mem_store(e->addr, e->size, e->val);
	memmove(&t->sb[0], &t->sb[1], sizeof(t->sb[0]) * (t->sbn - 1));
	t->sbn--;
	if (!t->sbn) t->empt[t->nempt++ & 255] = ds_step;
}
static void sb_drain(struct thr *t) { while (t->sbn) sb_flush_one(t); }
static void sb_drain_all(void) { for (int i = 0; i < nT; i++) if (T[i].state != ST_GONE) sb_drain(&T[i]); }
static void sb_tick(struct thr *t)
{
	for (int i = 0; i < t->sbn; i++) if (t->sb[i].hold > 0) t->sb[i].hold--;
	while (t->sbn && t->sb[0].hold == 0) sb_flush_one(t);
}
static int sb_any(void) { for (int i = 0; i < nT; i++) if (T[i].sbn) return 1; return 0; }

/* ---- scheduler ---- */
static void wake_stalled(int force)
{
	int earliest = -1;
	for (int i = 0; i < nT; i++) {
		if (T[i].state != ST_BLOCK || T[i].bkind != BK_STALL) continue;
		if (T[i].stall_until <= ds_step) { T[i].state = ST_RUN; T[i].bkind = BK_NONE; T[i].prio = ++max_prio; }
		else if (earliest < 0 || T[i].stall_until < T[earliest].stall_until) earliest = i;
	}
	if (force && earliest >= 0) { T[earliest].state = ST_RUN; T[earliest].bkind = BK_NONE; T[earliest].prio = ++max_prio; }
}
static int pick(void)
{
	int best = -1;
	if (nstall) wake_stalled(0);
	for (int i = 0; i < nT; i++) {
		if (T[i].state != ST_RUN) continue;
		if (best < 0 || T[i].prio > T[best].prio) best = i;
	}
	return best;
}
static int scen_unfinished(void)
{
	int n = 0;
	for (int i = 0; i < nT; i++) if (!T[i].daemon && T[i].state != ST_FIN && T[i].state != ST_GONE && T[i].state != ST_UNUSED) n++;
	return n;
}
static void switch_to(int next)
{
	struct thr *me = self;
	if (next == me->id) return;
	if (trace > 1) fprintf(stderr, "[%6lu] switch E%d -> E%d\n", ds_step, me->id, next);
	fwake(&T[next].baton);
	fwait(&me->baton);
}
static void do_freeze(struct thr *me);
static int thawed;	/* C17 second phase (ds_solo_thaw) */
static int wake_blocked(int kind, void *obj, int max);
static int others_unfinished(struct thr *me);
static int solo_at_gate(void)
{
	for (int i = 0; i < nT; i++) if (!T[i].daemon && T[i].scen_idx == freeze_solo) return T[i].state == ST_BLOCK && T[i].bkind == BK_GATE;
	return 0;
}
static void resched(void)
{
	int next = pick();
	if (next < 0 && nstall) { wake_stalled(1); next = pick(); }
	if (next < 0 && freeze_solo >= 0 && !solo_on && solo_at_gate()) { do_freeze(self); next = pick(); }
	if (next < 0) {
		sb_drain_all();
		next = pick();
		if (next < 0 && thawed && !others_unfinished(NULL) && wake_blocked(BK_THAW, NULL, MAXT)) next = pick();
		if (next < 0) {
			char b[600]; describe_threads(b, sizeof b);
			if (!scen_unfinished()) die("badcase", "internal: resched with all scenario threads done");
			die(solo_on ? "solo_block" : "deadlock", "no runnable thread: %s", b);
		}
	}
	switch_to(next);
}
static void check_progress(void)
{
	if (ds_step > max_steps) {
		char b[600]; describe_threads(b, sizeof b);
		die(solo_on ? "solo_hang" : "budget", "step budget %lu exceeded: %s", max_steps, b);
	}
	if (ds_step - last_progress_step > NOPROG && !sb_any()) {
		char b[600]; describe_threads(b, sizeof b);
		die(solo_on ? "solo_hang" : "stuck", "no memory write or wake-up by any thread for %lu steps: %s", NOPROG, b);
	}
}
static void do_freeze(struct thr *me)
{
	/* C17: freeze every thread but the solo one wherever it is; drain buffers */
	sb_drain_all();
	solo_on = 1; flags |= 1ull << DSF_FROZEN;
	for (int i = 0; i < nT; i++) {
		if (T[i].scen_idx == freeze_solo && !T[i].daemon) {
			if (T[i].state == ST_BLOCK && T[i].bkind == BK_GATE) { T[i].state = ST_RUN; T[i].bkind = BK_NONE; }
			T[i].prio = ++max_prio;
			continue;
		}
		if (T[i].state == ST_RUN || T[i].state == ST_BLOCK) { T[i].frozen_was = T[i].state; T[i].state = ST_FROZEN; }
	}
	last_progress_step = ds_step;
	(void)me;
}
static void raise_signals(struct thr *me);
static inline int tmatch(struct thr *t, int tid) { return tid >= 0 ? (!t->daemon && t->scen_idx == tid) : (t->daemon && t->daemon_idx == -1 - tid); }
static void sched_point(void)
{
	struct thr *me = self;
	if (!active || !me || in_rt) return;
	if (bulk) {
		/* not a scheduling point and not charged to the case's step budget (the stretch is long by design), but a stretch that never ends must still be
		 * reported by the engine, not by the wall clock: it has its own allowance, and the no-progress detector keeps running on its own count */
		in_rt = 1;
		if (++bulk_steps > BULK_MAX) { char b[600]; describe_threads(b, sizeof b); die("stuck", "a single-step (bulk) stretch took more than %lu steps: %s", BULK_MAX, b); }
		if (bulk_steps - bulk_last_write > NOPROG) { char b[600]; describe_threads(b, sizeof b); die("stuck", "no memory write for %lu steps inside a single-step (bulk) stretch: %s", NOPROG, b); }
		in_rt = 0;
		return;
	}
	in_rt = 1;
	ds_step++; me->lsteps++; me->op_pts++;
	check_progress();
	if (me->demote_at_next) { me->demote_at_next = 0; if (me->sbn) { me->prio = --min_prio; flags |= 1ull << DSF_SB_WINDOW; } }
	sb_tick(me);
	for (int i = 0; i < ncp; i++)
		if (tmatch(me, cps[i].tid) && ((cps[i].op == me->cur_op && cps[i].k == me->op_pts) || (cps[i].op == -1 && cps[i].k == me->lsteps)))
			me->prio = --min_prio;
	/* time slice: a thread that computes for SLICE scheduling points without ever yielding or blocking is preempted like a yielding one (a real
	 * scheduler is fair; without this a busy loop that contains no wait hint would starve every lower-priority thread) */
	if (++me->run_since_switch > SLICE) { me->run_since_switch = 0; me->prio = --min_prio; flags |= 1ull << DSF_TIMESLICE; }
	for (int i = 0; i < nstall; i++)
		if (!stalls[i].used && tmatch(me, stalls[i].tid) && stalls[i].op == me->cur_op && stalls[i].k == me->op_pts && !solo_on) {
			stalls[i].used = 1; flags |= 1ull << DSF_STALLED;
			me->stall_until = ds_step + stalls[i].n; me->run_since_switch = 0;
			me->state = ST_BLOCK; me->bkind = BK_STALL; me->bobj = NULL;
			break;
		}
	if (harass.on && !solo_on && !harass.pending && tmatch(me, harass.t) && me->cur_op == harass.op && me->op_pts % (unsigned long)harass.every == 0)
		for (int i = 0; i < nT; i++)
			if (!T[i].daemon && T[i].scen_idx == harass.u && T[i].state == ST_RUN) { T[i].prio = ++max_prio; harass.pending = 1; harass.rounds++; flags |= 1ull << DSF_HARASS; break; }
	if (rw_permille && (int)(xs(&rw_rng) % 1000) < rw_permille) {
		int cand[MAXT], nc = 0;
		for (int i = 0; i < nT; i++) if (T[i].state == ST_RUN) cand[nc++] = i;
		if (nc) T[cand[xs(&rw_rng) % nc]].prio = ++max_prio;
	}
	if (freeze_solo >= 0 && !solo_on && ds_step >= freeze_step && solo_at_gate()) do_freeze(me);
	resched();
	in_rt = 0;
	if (nsig) raise_signals(me);
}
static void yield_hint(void)
{
	struct thr *me = self;
	if (!active || !me || in_rt) return;
	in_rt = 1;
	ds_step++; me->lsteps++; me->op_pts++; me->yields++; me->run_since_switch = 0;
	check_progress();
	sb_drain(me);	/* a flush is always permitted; keeps a held store from looking like a lost wake-up */
	if (solo_on && me->scen_idx == freeze_solo && !me->daemon) solo_yields++;
	if (freeze_solo >= 0 && !solo_on && ds_step >= freeze_step && solo_at_gate()) do_freeze(me);
	me->prio = --min_prio;
	resched();
	in_rt = 0;
}
void ds_yield(void) { yield_hint(); }
/* unit boundary of the calling thread (one removal of a drain loop, or an operation boundary): a harassing thread hands the processor back */
void ds_unit(void)
{
	struct thr *me = self;
	if (!active || !me || in_rt || !harass.on || !harass.pending || me->daemon || me->scen_idx != harass.u) return;
	harass.pending = 0;
	me->run_since_switch = 0;	/* the alternation is a sequence of switches, not one long time slice */
	for (int i = 0; i < nT; i++) if (tmatch(&T[i], harass.t) && T[i].state == ST_RUN) { T[i].prio = ++max_prio; T[i].run_since_switch = 0; }
	sched_point();
}
/* scenario code made observable progress that is not a memory write (a traversal reached another node): resets the no-progress detector */
void ds_progress(void) { last_progress_step = ds_step; }
/* bulk mode: the calling thread runs a long, uninteresting stretch of library calls (tens of thousands of nested rcu_read_lock()) as one scheduling
 * step: its buffered stores are drained, then its accesses go straight to memory and are no scheduling points until ds_bulk(0). Wrapped calls (futex,
 * mutex) keep their simulated behaviour; if one blocks, other threads run as usual. The executions explored are those in which the thread is not
 * preempted inside the stretch. */
void ds_bulk(int on)
{
	struct thr *me = self;
	if (!active || !me || in_rt) return;
	if (on) { sched_point(); in_rt = 1; sb_drain(me); in_rt = 0; bulk = 1; }
	else bulk = 0;
}
void urcu_verif_cpu_relax(void) { yield_hint(); }
int ds_solo_active(void) { return solo_on; }
static unsigned long solo_s0, solo_y0;
int ds_i_am_solo(void) { return solo_on && self && !self->daemon && self->scen_idx == freeze_solo && (flags >> DSF_GATE_PASSED & 1); }
void ds_solo_op_begin(void) { if (self) { solo_s0 = self->lsteps; solo_y0 = solo_yields; } }
void ds_solo_op_end(const char *what, long bound)
{
	if (!ds_i_am_solo()) return;
	unsigned long st = self->lsteps - solo_s0, y = solo_yields - solo_y0;
	flags |= 1ull << DSF_SOLO_OP_DONE;
	if (y) ds_fail("progress: %s, run solo with every other thread suspended, reached a wait hint (cpu_relax/poll/futex/contended mutex) %lu times", what, y);
	if (bound > 0 && st > (unsigned long)bound) ds_fail("progress: %s, run solo with every other thread suspended, took %lu of its own steps (bound %ld)", what, st, bound);
}
int ds_sb_pending(void) { return self ? self->sbn : 0; }
/* first step >= `step` at which engine thread `tid`'s store buffer was empty again (~0ul: not observed / log wrapped) */
unsigned long ds_sb_empty_after(int tid, unsigned long step)
{
	struct thr *t = &T[tid];
	if (!t->sbn && (!t->nempt || t->empt[(t->nempt - 1) & 255] < step)) return step;
	if (t->nempt > 256) return ~0ul;
	for (int i = 0; i < t->nempt; i++) if (t->empt[i] >= step) return t->empt[i];
	return ~0ul;
}
unsigned long ds_solo_yields(void) { return solo_yields; }

static void block_on(int kind, void *obj)
{
	struct thr *me = self;
	me->run_since_switch = 0;
	me->state = ST_BLOCK; me->bkind = kind; me->bobj = obj;
	resched();
}
static int wake_blocked(int kind, void *obj, int max)
{
	int n = 0;
	for (int i = 0; i < nT && n < max; i++)
		if (T[i].state == ST_BLOCK && T[i].bkind == kind && T[i].bobj == obj) { T[i].state = ST_RUN; T[i].bkind = BK_NONE; n++; }
		else if (T[i].state == ST_FROZEN && T[i].frozen_was == ST_BLOCK && T[i].bkind == kind && T[i].bobj == obj) { T[i].frozen_was = ST_RUN; T[i].bkind = BK_NONE; n++; }
	if (n) last_progress_step = ds_step;
	return n;
}
/* C17, second phase: the solo thread lets every suspended thread go again, waits until all of them have finished their programs (store buffers
 * drained; a thread that waits in pthread_join counts as finished), and then runs on with nothing in flight anywhere */
static int others_unfinished(struct thr *me)
{
	int n = 0;
	for (int i = 0; i < nT; i++) if (&T[i] != me && !T[i].daemon && T[i].state != ST_FIN && T[i].state != ST_GONE && T[i].state != ST_UNUSED && !(T[i].state == ST_BLOCK && (T[i].bkind == BK_THAW || T[i].bkind == BK_JOIN))) n++;
	return n;
}
int ds_solo_thaw(void)
{
	struct thr *me = self;
	if (!active || !me || !solo_on) return 0;
	in_rt = 1;
	solo_on = 0; thawed = 1;
	for (int i = 0; i < nT; i++) if (T[i].state == ST_FROZEN) T[i].state = T[i].frozen_was;
	last_progress_step = ds_step;
	if (others_unfinished(me)) block_on(BK_THAW, NULL);
	sb_drain_all();
	in_rt = 0;
	return 1;
}
void ds_solo_gate(void)
{
	struct thr *me = self;
	if (!active || !me) return;
	if (solo_on) { flags |= 1ull << DSF_GATE_PASSED; return; }
	in_rt = 1;
	if (freeze_solo < 0) { in_rt = 0; return; }
	block_on(BK_GATE, NULL);
	flags |= 1ull << DSF_GATE_PASSED;
	in_rt = 0;
}

/* ---- signals ---- */
static void (*sig_fn)(int);
void ds_set_sighandler(void (*fn)(int)) { sig_fn = fn; }
static void sig_tramp(int signo)
{
	(void)signo;
	struct thr *me = self;
	int e = errno;
	if (!me || !sig_fn) return;
	int was_rt = in_rt; in_rt = 0;
	me->in_sig++;
	flags |= 1ull << DSF_SIGNAL_RUN;
	sig_fn(me->id);
	me->in_sig--;
	in_rt = 1; sb_drain(me); in_rt = was_rt;	/* sigreturn is serialising */
	errno = e;
}
static void raise_signals(struct thr *me)
{
	for (int i = 0; i < nsig; i++)
		/* while the thread runs its program; with `sigx` lines also `k` scheduling points into its exit path (thread-specific-data destructors) */
		if (tmatch(me, sigs[i].tid) && ((sigs[i].k == me->lsteps && me->cur_op >= 0 && !sigs[i].at_exit) || (sigs[i].at_exit && me->exiting && sigs[i].k == me->lsteps - me->exit_base))) {
			in_rt = 1; sb_drain(me); in_rt = 0;	/* interrupt delivery is serialising */
			pthread_kill(pthread_self(), SIGUSR1);
		}
}

/* ---- tsan callbacks ---- */
void __tsan_init(void) {}
void __tsan_func_entry(void *pc) { (void)pc; }
void __tsan_func_exit(void) {}

static inline int own_stack(struct thr *me, const void *a)
{
	char *sp = (char *)__builtin_frame_address(0);
	return (const char *)a >= sp - 512 && (const char *)a < me->stack_hi;
}
static void plain_read(const void *a, int n)
{
	struct thr *me = self;
	if (!active || !me || in_rt) return;
	if (!own_stack(me, a)) sched_point();
	check_access(a, n, 0);
	if (me->sbn) {
		in_rt = 1;
		int last = -1;
		for (int i = 0; i < me->sbn; i++)
			if ((uintptr_t)a < me->sb[i].addr + me->sb[i].size && me->sb[i].addr < (uintptr_t)a + n) last = i;
		for (int i = 0; i <= last; i++) sb_flush_one(me);
		if (last < 0 && me->sb_cp_pending && me->sbn && !own_stack(me, a)) { me->sb_cp_pending = 0; me->demote_at_next = 1; }	/* load of another location while a store is held */
		in_rt = 0;
	}
}
static void plain_write(const void *a, int n)
{
	struct thr *me = self;
	if (!active || !me || in_rt) return;
	if (!own_stack(me, a)) { sched_point(); writes_epoch++; last_progress_step = ds_step; }
	check_access(a, n, 1);
	/* a plain store cannot be buffered by the engine (the instrumented code writes memory itself), so older buffered stores are flushed first to keep
	 * store order - except for stores to the thread's own stack while no other thread has ever touched that stack: nobody can observe their order */
	if (me->sbn && !(own_stack(me, a) && !me->stack_shared)) { in_rt = 1; sb_drain(me); in_rt = 0; }
}
#define RW(n) void __tsan_read##n(void *a) { plain_read(a, n); } void __tsan_write##n(void *a) { plain_write(a, n); } \
 void __tsan_unaligned_read##n(void *a) { plain_read(a, n); } void __tsan_unaligned_write##n(void *a) { plain_write(a, n); } \
 void __tsan_volatile_read##n(void *a) { plain_read(a, n); } void __tsan_volatile_write##n(void *a) { plain_write(a, n); }
RW(1) RW(2) RW(4) RW(8) RW(16)
void __tsan_read_range(void *a, long s) { plain_read(a, (int)s); }
void __tsan_write_range(void *a, long s) { plain_write(a, (int)s); }
void __tsan_vptr_update(void **a, void *b) { (void)a; (void)b; }
void __tsan_vptr_read(void **a) { (void)a; }

static int sb_forward(struct thr *me, uintptr_t a, int n, uint64_t *out)
{
	for (int i = me->sbn - 1; i >= 0; i--) {
		struct sbent *e = &me->sb[i];
		if (e->addr == a && e->size == n) { *out = e->val; return 1; }
		if (a < e->addr + e->size && e->addr < a + n) return -1;
	}
	return 0;
}
static int other_buffers(struct thr *me, uintptr_t a, int n)
{
	for (int t = 0; t < nT; t++) {
		if (&T[t] == me) continue;
		for (int i = 0; i < T[t].sbn; i++)
			if (a < T[t].sb[i].addr + T[t].sb[i].size && T[t].sb[i].addr < a + n) return 1;
	}
	return 0;
}
static int store_delay(struct thr *me)
{
	unsigned long j = me->nstores++, k = me->op_stores++;
	for (int i = 0; i < ndelay; i++) if (tmatch(me, delays[i].tid) && delays[i].j == j) return delays[i].len;
	for (int i = 0; i < ndelay2; i++) if (tmatch(me, delays2[i].tid) && delays2[i].op == me->cur_op && delays2[i].k == k) { if (delays2[i].cp) me->sb_cp_pending = 1; return delays2[i].len; }
	if (rd_pct && (int)(xs(&rd_rng) % 100) < rd_pct) return 1 + (int)(xs(&rd_rng) % rd_maxlen);
	return 0;
}
static void atomic_store_common(volatile void *a, int size, uint64_t v, int mo)
{
	struct thr *me = self;
	if (active && me && !in_rt) {
		sched_point();
		check_access((const void *)a, size, 1);
		in_rt = 1;
		int delay = (mo != __ATOMIC_SEQ_CST && !bulk) ? store_delay(me) : (me->nstores++, 0);
		if (me->sbn || delay) {
			if (me->sbn == SBMAX) sb_flush_one(me);
			struct sbent *e = &me->sb[me->sbn++];
			e->addr = (uintptr_t)a; e->size = size; e->val = v; e->hold = delay;
			if (delay) flags |= 1ull << DSF_DELAYED_STORE;
			if (mo == __ATOMIC_SEQ_CST) sb_drain(me);
			in_rt = 0;
			return;
		}
		in_rt = 0;
	}
	mem_store((uintptr_t)a, size, v);
}
static inline void rmw_pre(volatile void *a, int size)
{
	struct thr *me = self;
	if (active && me && !in_rt) { sched_point(); check_access((const void *)a, size, 1); in_rt = 1; sb_drain(me); writes_epoch++; last_progress_step = ds_step; bulk_last_write = bulk_steps; in_rt = 0; }
}
#define AT(bits, TYPE) \
TYPE __tsan_atomic##bits##_load(const volatile TYPE *a, int mo) { (void)mo; struct thr *me = self; \
	if (active && me && !in_rt) { sched_point(); check_access((const void *)a, bits / 8, 0); \
		if (me->sbn) { uint64_t v; int r = sb_forward(me, (uintptr_t)a, bits / 8, &v); \
			if (r == 1) { flags |= 1ull << DSF_FORWARD; return (TYPE)v; } if (r < 0) { in_rt = 1; sb_drain(me); in_rt = 0; } } \
		if (other_buffers(me, (uintptr_t)a, bits / 8)) flags |= 1ull << DSF_STALE_READ; } \
	return __atomic_load_n(a, __ATOMIC_SEQ_CST); } \
void __tsan_atomic##bits##_store(volatile TYPE *a, TYPE v, int mo) { atomic_store_common(a, bits / 8, (uint64_t)v, mo); } \
TYPE __tsan_atomic##bits##_exchange(volatile TYPE *a, TYPE v, int mo) { (void)mo; rmw_pre(a, bits / 8); return __atomic_exchange_n(a, v, __ATOMIC_SEQ_CST); } \
TYPE __tsan_atomic##bits##_fetch_add(volatile TYPE *a, TYPE v, int mo) { (void)mo; rmw_pre(a, bits / 8); return __atomic_fetch_add(a, v, __ATOMIC_SEQ_CST); } \
TYPE __tsan_atomic##bits##_fetch_sub(volatile TYPE *a, TYPE v, int mo) { (void)mo; rmw_pre(a, bits / 8); return __atomic_fetch_sub(a, v, __ATOMIC_SEQ_CST); } \
TYPE __tsan_atomic##bits##_fetch_and(volatile TYPE *a, TYPE v, int mo) { (void)mo; rmw_pre(a, bits / 8); return __atomic_fetch_and(a, v, __ATOMIC_SEQ_CST); } \
TYPE __tsan_atomic##bits##_fetch_or(volatile TYPE *a, TYPE v, int mo) { (void)mo; rmw_pre(a, bits / 8); return __atomic_fetch_or(a, v, __ATOMIC_SEQ_CST); } \
TYPE __tsan_atomic##bits##_fetch_xor(volatile TYPE *a, TYPE v, int mo) { (void)mo; rmw_pre(a, bits / 8); return __atomic_fetch_xor(a, v, __ATOMIC_SEQ_CST); } \
TYPE __tsan_atomic##bits##_fetch_nand(volatile TYPE *a, TYPE v, int mo) { (void)mo; rmw_pre(a, bits / 8); return __atomic_fetch_nand(a, v, __ATOMIC_SEQ_CST); } \
int __tsan_atomic##bits##_compare_exchange_strong(volatile TYPE *a, TYPE *c, TYPE v, int mo, int fmo) { (void)mo; (void)fmo; rmw_pre(a, bits / 8); int r = __atomic_compare_exchange_n(a, c, v, 0, __ATOMIC_SEQ_CST, __ATOMIC_SEQ_CST); if (!r) flags |= 1ull << DSF_CAS_FAIL; return r; } \
int __tsan_atomic##bits##_compare_exchange_weak(volatile TYPE *a, TYPE *c, TYPE v, int mo, int fmo) { (void)mo; (void)fmo; rmw_pre(a, bits / 8); int r = __atomic_compare_exchange_n(a, c, v, 0, __ATOMIC_SEQ_CST, __ATOMIC_SEQ_CST); if (!r) flags |= 1ull << DSF_CAS_FAIL; return r; } \
TYPE __tsan_atomic##bits##_compare_exchange_val(volatile TYPE *a, TYPE c, TYPE v, int mo, int fmo) { (void)mo; (void)fmo; rmw_pre(a, bits / 8); if (!__atomic_compare_exchange_n(a, &c, v, 0, __ATOMIC_SEQ_CST, __ATOMIC_SEQ_CST)) flags |= 1ull << DSF_CAS_FAIL; return c; }
AT(8, uint8_t) AT(16, uint16_t) AT(32, uint32_t) AT(64, uint64_t)

void __tsan_atomic_thread_fence(int mo)
{
	struct thr *me = self;
	if (active && me && !in_rt) { sched_point(); if (mo == __ATOMIC_SEQ_CST) { in_rt = 1; sb_drain(me); in_rt = 0; } }
}
void __tsan_atomic_signal_fence(int mo) { (void)mo; }
void __tsan_acquire(void *a) { (void)a; }
void __tsan_release(void *a) { (void)a; }

/* ---- faults ---- */
static long nth_call[8];
enum { FC_FUTEX_WAIT, FC_FUTEX, FC_MREMAP, FC_PCREATE, FC_WAIT_ANY };
static int fault_hit(const char *kind, long k)
{
	for (int i = 0; i < nfault; i++)
		if (!strcmp(faults[i].kind, kind) && (faults[i].k == -1 || (k >= 0 && faults[i].k == k))) { flags |= 1ull << DSF_FAULT_HIT; return 1; }
	return 0;
}

/* ---- wrappers ---- */
/* mutex ownership (oracle): unlocking a mutex that another thread holds, or that nobody holds, is undefined behaviour the C library does not report for
 * default mutexes; here it is a violation. Mutexes first seen at an unlock (locked before the case started) are not judged. */
static struct { pthread_mutex_t *m; int owner; } mown[256]; static int nmown;
static void mown_set(pthread_mutex_t *m, int owner)
{
	for (int i = 0; i < nmown; i++) if (mown[i].m == m) { mown[i].owner = owner; return; }
	if (nmown < 256) { mown[nmown].m = m; mown[nmown].owner = owner; nmown++; }
}
static void mown_check_unlock(pthread_mutex_t *m, struct thr *me)
{
	for (int i = 0; i < nmown; i++) if (mown[i].m == m) {
		if (mown[i].owner != me->id + 1) {
			if (mown[i].owner) die("viol", "pthread_mutex_unlock(%p) by E%d, but the mutex is held by E%d: a lock was dropped and not taken again on some path", (void *)m, me->id, mown[i].owner - 1);
			die("viol", "pthread_mutex_unlock(%p) by E%d, but the mutex is not locked: a lock was dropped and not taken again on some path", (void *)m, me->id);
		}
		mown[i].owner = 0;
		return;
	}
}
int __wrap_pthread_mutex_lock(pthread_mutex_t *m)
{
	struct thr *me = self;
	if (!active || !me || in_rt) return __real_pthread_mutex_lock(m);
	sched_point();
	in_rt = 1; sb_drain(me);
	while (__real_pthread_mutex_trylock(m) != 0) { flags |= 1ull << DSF_MUTEX_BLOCK; if (trace) fprintf(stderr, "[%6lu E%d] blocks on mutex %p (pid %d)\n", ds_step, me->id, (void *)m, (int)getpid()); if (solo_on && me->scen_idx == freeze_solo) solo_yields++; block_on(BK_MUTEX, m); }
	if (trace > 1) fprintf(stderr, "[%6lu E%d] locked mutex %p (pid %d)\n", ds_step, me->id, (void *)m, (int)getpid());
	mown_set(m, me->id + 1);
	in_rt = 0;
	return 0;
}
int __wrap_pthread_mutex_trylock(pthread_mutex_t *m)
{
	struct thr *me = self;
	if (!active || !me || in_rt) return __real_pthread_mutex_trylock(m);
	sched_point();
	in_rt = 1; sb_drain(me);
	int r = __real_pthread_mutex_trylock(m);
	if (r == 0) mown_set(m, me->id + 1);
	in_rt = 0;
	return r;
}
int __wrap_pthread_mutex_unlock(pthread_mutex_t *m)
{
	struct thr *me = self;
	if (!active || !me || in_rt) return __real_pthread_mutex_unlock(m);
	sched_point();
	in_rt = 1; sb_drain(me);
	mown_check_unlock(m, me);
	int r = __real_pthread_mutex_unlock(m);
	if (trace > 1) fprintf(stderr, "[%6lu E%d] unlocked mutex %p (pid %d)\n", ds_step, me->id, (void *)m, (int)getpid());
	wake_blocked(BK_MUTEX, m, MAXT);
	last_progress_step = ds_step;
	in_rt = 0;
	return r;
}

int __wrap_pthread_cond_wait(pthread_cond_t *c, pthread_mutex_t *m)
{
	struct thr *me = self;
	if (!active || !me || in_rt) return __real_pthread_cond_wait(c, m);
	sched_point();
	in_rt = 1; sb_drain(me);
	mown_check_unlock(m, me);
	__real_pthread_mutex_unlock(m);
	wake_blocked(BK_MUTEX, m, MAXT);
	if (solo_on && me->scen_idx == freeze_solo) solo_yields++;
	block_on(BK_COND, c);
	while (__real_pthread_mutex_trylock(m) != 0) block_on(BK_MUTEX, m);
	mown_set(m, me->id + 1);
	in_rt = 0;
	return 0;
}
int __wrap_pthread_cond_signal(pthread_cond_t *c)
{
	struct thr *me = self;
	if (!active || !me || in_rt) return __real_pthread_cond_signal(c);
	sched_point();
	in_rt = 1; sb_drain(me); wake_blocked(BK_COND, c, 1); in_rt = 0;
	return 0;
}
int __wrap_pthread_cond_broadcast(pthread_cond_t *c)
{
	struct thr *me = self;
	if (!active || !me || in_rt) return __real_pthread_cond_broadcast(c);
	sched_point();
	in_rt = 1; sb_drain(me); wake_blocked(BK_COND, c, MAXT); in_rt = 0;
	return 0;
}

long __wrap_syscall(long nr, ...)
{
	va_list ap; long a[6];
	va_start(ap, nr); for (int i = 0; i < 6; i++) a[i] = va_arg(ap, long); va_end(ap);
	struct thr *me = self;
	if (nr == SYS_membarrier) {
		int cmd = (int)a[0];
		if (cmd == 0) { if (ds_membarrier_available) return (1 << 0) | (1 << 3) | (1 << 4); errno = ENOSYS; return -1; }
		if (cmd == (1 << 4)) return 0;
		if (active && me && !in_rt) { sched_point(); in_rt = 1; sb_drain_all(); flags |= 1ull << DSF_MEMBARRIER; in_rt = 0; }
		return 0;
	}
	if (nr == SYS_futex && active && me && !in_rt) {
		int32_t *uaddr = (int32_t *)a[0]; int op = (int)a[1] & 127; int32_t val = (int32_t)a[2];
		sched_point();
		in_rt = 1; sb_drain(me);
		long ret = 0;
		long kf = nth_call[FC_FUTEX]++;
		if (trace) fprintf(stderr, "[%6lu E%d] futex(%p, %s, %d) word=%d\n", ds_step, me->id, (void *)uaddr, op == FUTEX_WAIT ? "WAIT" : op == FUTEX_WAKE ? "WAKE" : "?", val, *uaddr);
		/* ENOSYS: either the system call does not exist at all (every call), or the documented spurious ENOSYS of FUTEX_WAIT (mips/parisc signal-restart bug) */
		(void)kf;
		if (fault_hit("futex_enosys", -2)) { errno = ENOSYS; in_rt = 0; return -1; }
		if (op == FUTEX_WAIT) {
			if (a[3]) die("badcase", "futex wait with timeout not modelled");
			if (fault_hit("futex_wait_enosys", nth_call[FC_WAIT_ANY]++)) { errno = ENOSYS; in_rt = 0; return -1; }
			if (__atomic_load_n(uaddr, __ATOMIC_SEQ_CST) != val) { errno = EAGAIN; ret = -1; }
			else {
				long k = nth_call[FC_FUTEX_WAIT]++;
				if (fault_hit("futex_spurious", k)) ret = 0;
				else if (fault_hit("futex_eintr", k)) {
					/* EINTR is what a signal handler interrupting the wait produces: run the scenario's handler (if any) first */
					if (sig_fn && me->cur_op >= 0) { in_rt = 0; pthread_kill(pthread_self(), SIGUSR1); in_rt = 1; }
					errno = EINTR; ret = -1;
				}
				else {
					flags |= 1ull << DSF_FUTEX_SLEEP;
					if (solo_on && me->scen_idx == freeze_solo) solo_yields++;
					block_on(BK_FUTEX, uaddr); ret = 0;
				}
			}
		} else if (op == FUTEX_WAKE) {
			ret = wake_blocked(BK_FUTEX, uaddr, val);
			if (ret) flags |= 1ull << DSF_FUTEX_WAKE_HIT;
		} else { errno = ENOSYS; ret = -1; }
		in_rt = 0;
		return ret;
	}
	if (nr == SYS_getcpu || nr == SYS_gettid) return __real_syscall(nr, a[0], a[1], a[2], a[3], a[4], a[5]);
	return __real_syscall(nr, a[0], a[1], a[2], a[3], a[4], a[5]);
}

int __wrap_poll(struct pollfd *fds, nfds_t n, int timeout)
{
	if (active && self && !in_rt && n == 0) { yield_hint(); return 0; }
	return __real_poll(fds, n, timeout);
}
int __wrap_usleep(useconds_t us) { if (active && self && !in_rt) { yield_hint(); return 0; } return __real_usleep(us); }
unsigned int __wrap_sleep(unsigned int s) { if (active && self && !in_rt) { yield_hint(); return 0; } return __real_sleep(s); }
int __wrap_sched_yield(void) { if (active && self && !in_rt) { yield_hint(); return 0; } return __real_sched_yield(); }

/* a signal can be delivered right before the mask changes: blocking/unblocking signals is an interruption point of its own */
int __wrap_pthread_sigmask(int how, const sigset_t *set, sigset_t *old)
{
	if (active && self && !in_rt && set) sched_point();
	return __real_pthread_sigmask(how, set, old);
}

/* simulated 2-CPU machine: cpu of a thread = cfg "cpu<scen_idx>" or engine id & 1 */
static int ncpus = 2;
int __wrap_sched_getcpu(void)
{
	struct thr *me = self;
	if (!active || !me) return 0;
	if (!me->daemon) { char k[16]; snprintf(k, sizeof k, "cpu%d", me->scen_idx); return (int)ds_cfg(k, me->id % ncpus); }
	return me->id % ncpus;
}
int __wrap_sched_setaffinity(pid_t pid, size_t sz, const cpu_set_t *m) { (void)pid; (void)sz; (void)m; return 0; }
int __wrap_open(const char *path, int fl, ...)
{
	va_list ap; va_start(ap, fl); int mode = va_arg(ap, int); va_end(ap);
	if (!strcmp(path, "/sys/devices/system/cpu/possible")) {
		int fd = memfd_create("possible", 0);
		char b[16]; int n = ncpus >= 2 ? snprintf(b, sizeof b, "0-%d\n", ncpus - 1) : snprintf(b, sizeof b, "0\n");
		(void) !write(fd, b, (size_t)n); lseek(fd, 0, SEEK_SET);
		return fd;
	}
	return __real_open(path, fl, mode);
}
/* In-place growth mode (cfg inplace 1): every anonymous mapping the library creates gets a reserved, inaccessible tail of IPM_TAIL bytes, and a
 * non-moving mremap() that grows the mapping succeeds in place over that tail (fresh zero pages, as the kernel provides) - the layout in which the
 * address range after a mapping happens to be free.  Without the mode the kernel decides (growth inside the last page succeeds, growth across a
 * page boundary normally fails because the next range is taken).  An access past the grown mapping faults on the reserved tail. */
#define IPM_TAIL (16 * 4096ul)
static struct { char *base; size_t len, resv; } ipm[16];
static int nipm, inplace_mode;
void *__wrap_mmap(void *addr, size_t len, int prot, int fl, int fd, off_t off)
{
	if (!active || !self || in_rt || !inplace_mode || addr || !(fl & MAP_ANONYMOUS) || (fl & MAP_FIXED) || nipm >= 16 || !len)
		return __real_mmap(addr, len, prot, fl, fd, off);
	size_t pl = (len + 4095) & ~4095ul, resv = pl + IPM_TAIL;
	char *b = __real_mmap(NULL, resv, PROT_NONE, MAP_PRIVATE | MAP_ANONYMOUS | MAP_NORESERVE, -1, 0);
	if (b == MAP_FAILED) return b;
	if (__real_mmap(b, pl, prot, fl | MAP_FIXED, fd, off) == MAP_FAILED) { __real_munmap(b, resv); errno = ENOMEM; return MAP_FAILED; }
	ipm[nipm].base = b; ipm[nipm].len = pl; ipm[nipm].resv = resv; nipm++;
	return b;
}
int __wrap_munmap(void *addr, size_t len)
{
	for (int i = 0; i < nipm; i++)
		if (ipm[i].base == (char *)addr) { size_t r = ipm[i].resv; ipm[i] = ipm[--nipm]; return __real_munmap(addr, r); }
	return __real_munmap(addr, len);
}
void *__wrap_mremap(void *old, size_t osz, size_t nsz, int fl, ...)
{
	long k = nth_call[FC_MREMAP]++;
	if (active && self && !in_rt && !(fl & MREMAP_MAYMOVE) && fault_hit("mremap_fail", k)) { errno = ENOMEM; return MAP_FAILED; }
	if (!(fl & MREMAP_MAYMOVE))
		for (int i = 0; i < nipm; i++)
			if (ipm[i].base == (char *)old) {
				size_t npl = (nsz + 4095) & ~4095ul;
				if (npl > ipm[i].resv) { errno = ENOMEM; return MAP_FAILED; }
				if (npl > ipm[i].len) {
					if (__real_mmap(ipm[i].base + ipm[i].len, npl - ipm[i].len, PROT_READ | PROT_WRITE, MAP_PRIVATE | MAP_ANONYMOUS | MAP_FIXED, -1, 0) == MAP_FAILED) { errno = ENOMEM; return MAP_FAILED; }
					ipm[i].len = npl;
					flags |= 1ull << DSF_INPLACE_GROWTH;
				}
				return old;
			}
	return __real_mremap(old, osz, nsz, fl);
}

static void thread_finish(struct thr *me)
{
	in_rt = 1;
	sb_drain(me);
	if (solo_on && !me->daemon && me->scen_idx == freeze_solo) die("ok", "solo thread finished");
	me->state = ST_FIN;
	last_progress_step = ds_step;
	wake_blocked(BK_JOIN, me, MAXT);
	if (thawed && !others_unfinished(NULL)) wake_blocked(BK_THAW, NULL, MAXT);
	int next = pick();
	if (next < 0) { sb_drain_all(); next = pick(); }
	if (next < 0 && nstall) { wake_stalled(1); next = pick(); }
	if (next < 0 && freeze_solo >= 0 && !solo_on && solo_at_gate()) { do_freeze(me); next = pick(); }
	if (next < 0 && thawed && !others_unfinished(NULL) && wake_blocked(BK_THAW, NULL, MAXT)) next = pick();
	if (next < 0) {
		if (scen_unfinished()) { char b[600]; describe_threads(b, sizeof b); die(solo_on ? "solo_block" : "deadlock", "at thread exit: %s", b); }
		return;
	}
	fwake(&T[next].baton);
}

static pthread_key_t ds_key;
static int dtor_round[MAXT];
static void ds_key_dtor(void *p)
{
	struct thr *me = p;
	if (++dtor_round[me->id] < PTHREAD_DESTRUCTOR_ITERATIONS) { pthread_setspecific(ds_key, me); return; }
	thread_finish(me);
}
void __wrap_pthread_exit(void *ret)
{
	struct thr *me = self;
	if (active && me && me->pt == pthread_self() && me->id != 0) {
		/* a library thread leaving through pthread_exit(): finish exactly like a return from its start routine */
		int was = in_rt; in_rt = 1;
		me->ret = ret;
		pthread_setspecific(ds_key, me);
		in_rt = was;
	}
	__real_pthread_exit(ret);
}
static void *tramp(void *p)
{
	struct thr *me = p;
	char marker;
	self = me; me->stack_hi = &marker + 256;
	fwait(&me->baton);
	me->ret = me->fn(me->arg);
	in_rt = 1;
	me->exiting = 1; me->exit_base = me->lsteps;
	pthread_setspecific(ds_key, me);	/* finish from the last TSD destructor round (urcu-bp exit notifier runs under the baton) */
	in_rt = 0;
	return me->ret;
}
static int spawning_scen;
static int new_thread(pthread_t *pt, const pthread_attr_t *attr, void *(*fn)(void *), void *arg)
{
	struct thr *me = self;
	if (nT >= MAXT) die("badcase", "too many threads");
	struct thr *t = &T[nT];
	memset(t, 0, sizeof *t);
	t->id = nT; t->state = ST_RUN; t->fn = fn; t->arg = arg; t->cur_op = -1;
	if (spawning_scen) { t->daemon = 0; t->scen_idx = nScen; t->prio = nScen < nprio ? prio_list[nScen] * 1000 + 500000 - nScen : 500000 - nScen; nScen++; }
	else {
		static int nd;
		t->daemon = 1; t->scen_idx = -1; t->daemon_idx = nd;
		t->prio = (nd < ndprio ? dprio_list[nd] * 1000 : me->prio - 500000 + 1000) + 500000 - 20 - nd; nd++;
	}
	if (solo_on) { t->frozen_was = ST_RUN; t->state = ST_FROZEN; }
	nT++;
	int r = __real_pthread_create(&t->pt, attr, tramp, t);
	if (r) die("badcase", "real pthread_create failed %d", r);
	if (pt) *pt = t->pt;
	last_progress_step = ds_step;
	return t->id;
}
int __wrap_pthread_create(pthread_t *pt, const pthread_attr_t *attr, void *(*fn)(void *), void *arg)
{
	struct thr *me = self;
	if (!active || !me) return __real_pthread_create(pt, attr, fn, arg);
	int was = in_rt;
	if (!was) sched_point();
	in_rt = 1; sb_drain(me);
	long k = nth_call[FC_PCREATE]++;
	/* EAGAIN only where the library documents a fallback: the partitioned-resize helpers, which are the only threads created with the caller's
	 * pthread attributes (cds_lfht_new's attr argument); work-queue and call_rcu helper creation treat failure as fatal by design */
	if (!spawning_scen && attr && fault_hit("pthread_create_eagain", k)) { in_rt = was; return EAGAIN; }
	new_thread(pt, attr, fn, arg);
	in_rt = was;
	return 0;
}
int ds_spawn(void *(*fn)(void *), void *arg)
{
	pthread_t pt;
	struct thr *me = self;
	int was = in_rt;
	if (!was) sched_point();
	in_rt = 1; sb_drain(me);
	spawning_scen = 1;
	int id = new_thread(&pt, NULL, fn, arg);
	spawning_scen = 0;
	in_rt = was;
	return id;
}
static void join_thr(struct thr *t)
{
	struct thr *me = self;
	sched_point();
	in_rt = 1; sb_drain(me);
	while (t->state != ST_FIN) block_on(BK_JOIN, t);
	in_rt = 0;
	__real_pthread_join(t->pt, NULL);
}
void ds_join(int tid) { join_thr(&T[tid]); }
int __wrap_pthread_join(pthread_t pt, void **ret)
{
	struct thr *me = self;
	if (!active || !me || in_rt) return __real_pthread_join(pt, ret);
	struct thr *t = NULL;
	for (int i = 0; i < nT; i++) if (T[i].state != ST_GONE && pthread_equal(T[i].pt, pt) && i != me->id) t = &T[i];
	if (!t) die("badcase", "join of unknown thread");
	join_thr(t);
	if (ret) *ret = t->ret;
	return 0;
}

/* ---- fork (C16) ---- */
pid_t __wrap_fork(void)
{
	struct thr *me = self;
	if (!active || !me) return __real_fork();
	sched_point();
	in_rt = 1; sb_drain(me);	/* only the caller's buffer: stores still buffered by other threads are not in the memory image the child inherits */
	flags |= 1ull << DSF_FORKED;
	pid_t p = __real_fork();
	if (p == 0) {
		/* child: only the forking thread exists */
		for (int i = 0; i < nT; i++) if (&T[i] != me && T[i].state != ST_FIN) { T[i].state = ST_GONE; T[i].sbn = 0; }
		last_progress_step = ds_step;
	}
	in_rt = 0;
	return p;
}

/* ---- case parsing ---- */
static void parse_case(char *text)
{
	char *save = NULL;
	for (char *line = strtok_r(text, "\n", &save); line; line = strtok_r(NULL, "\n", &save)) {
		char w[32]; int n = 0;
		if (sscanf(line, "%31s%n", w, &n) != 1 || w[0] == '#') continue;
		char *rest = line + n;
		if (!strcmp(w, "scen")) sscanf(rest, "%63s", scen_name);
		else if (!strcmp(w, "cfg")) { if (sscanf(rest, "%31s %ld", cfgs[ncfg].key, &cfgs[ncfg].val) == 2 && ncfg < 63) ncfg++; }
		else if (w[0] == 'T' && w[1] >= '0' && w[1] <= '9') {
			int t = atoi(w + 1);
			if (t >= MAXPROG || nops[t] >= MAXOPS) die("badcase", "program too large");
			struct ds_op *o = &prog[t][nops[t]++];
			int m = 0; o->na = 0;
			if (sscanf(rest, "%19s%n", o->name, &m) != 1) die("badcase", "bad op line");
			rest += m;
			while (o->na < DS_MAXARGS && sscanf(rest, "%ld%n", &o->a[o->na], &m) == 1) { o->na++; rest += m; }
			if (t + 1 > nprog) nprog = t + 1;
		}
		else if (!strcmp(w, "prio")) { int m; while (nprio < MAXLIST && sscanf(rest, "%ld%n", &prio_list[nprio], &m) == 1) { nprio++; rest += m; } }
		else if (!strcmp(w, "dprio")) { int m; while (ndprio < MAXLIST && sscanf(rest, "%ld%n", &dprio_list[ndprio], &m) == 1) { ndprio++; rest += m; } }
		else if (!strcmp(w, "cp")) { if (ncp < MAXLIST && sscanf(rest, "%d %d %lu", &cps[ncp].tid, &cps[ncp].op, &cps[ncp].k) == 3) ncp++; }
		else if (!strcmp(w, "delay")) { if (ndelay < MAXLIST && sscanf(rest, "%d %lu %d", &delays[ndelay].tid, &delays[ndelay].j, &delays[ndelay].len) == 3) ndelay++; }
		else if (!strcmp(w, "harass")) { harass.every = 1; if (sscanf(rest, "%d %d %d %d", &harass.t, &harass.op, &harass.u, &harass.every) >= 3) harass.on = 1; if (harass.every < 1) harass.every = 1; }
		else if (!strcmp(w, "stall")) { if (nstall < MAXLIST && sscanf(rest, "%d %d %lu %lu", &stalls[nstall].tid, &stalls[nstall].op, &stalls[nstall].k, &stalls[nstall].n) == 4) nstall++; }
		else if (!strcmp(w, "delay2")) { if (ndelay2 < MAXLIST && sscanf(rest, "%d %d %lu %d %d", &delays2[ndelay2].tid, &delays2[ndelay2].op, &delays2[ndelay2].k, &delays2[ndelay2].len, &delays2[ndelay2].cp) == 5) ndelay2++; }
		else if (!strcmp(w, "sigx")) { if (nsig < MAXLIST && sscanf(rest, "%d %lu", &sigs[nsig].tid, &sigs[nsig].k) == 2) { sigs[nsig].at_exit = 1; nsig++; } }
		else if (!strcmp(w, "sig")) { if (nsig < MAXLIST && sscanf(rest, "%d %lu", &sigs[nsig].tid, &sigs[nsig].k) == 2) nsig++; }
		else if (!strcmp(w, "fault")) { if (nfault < MAXLIST && sscanf(rest, "%23s %ld", faults[nfault].kind, &faults[nfault].k) == 2) nfault++; }
		else if (!strcmp(w, "rw")) { unsigned long s; if (sscanf(rest, "%lu %d", &s, &rw_permille) == 2) rw_rng = s * 0x9E3779B97F4A7C15ull + 0x1234567ull; }
		else if (!strcmp(w, "rdelay")) { unsigned long s; if (sscanf(rest, "%lu %d %d", &s, &rd_pct, &rd_maxlen) >= 2) rd_rng = s * 0x9E3779B97F4A7C15ull + 0x7654321ull; if (rd_maxlen < 1) rd_maxlen = 1; }
		else if (!strcmp(w, "freeze")) sscanf(rest, "%lu %d", &freeze_step, &freeze_solo);
		else if (!strcmp(w, "budget")) sscanf(rest, "%lu", &max_steps);
		else die("badcase", "unknown case line '%s'", w);
	}
}

static void crash_handler(int sig, siginfo_t *si, void *uc)
{
	(void)uc;
	char b[256];
	int n = snprintf(b, sizeof b, "RESULT crash %llx %lu %d signal %d addr %p in E%d op %d\n", (unsigned long long)flags, ds_step, nT, sig, si ? si->si_addr : NULL, self ? self->id : -1, self ? self->cur_op : -1);
	if (getpid() != case_pid) { (void) !write(2, b, n); _exit(22); }
	(void) !write(result_fd, b, n);
	_exit(0);
}

static void run_case(char *text, int tr)
{
	char marker;
	trace = tr;
	case_pid = getpid();
	parse_case(text);
	ds_membarrier_available = (int)ds_cfg("membarrier", 1);
	ncpus = (int)ds_cfg("ncpus", 2);
	inplace_mode = (int)ds_cfg("inplace", 0);
	addrline_k = ds_cfg("addrline", 0);
	NOPROG = (unsigned long)ds_cfg("noprog", 6000);
	ds_scenario_fn fn = NULL;
	for (int i = 0; i < nscen; i++) if (!strcmp(scen_names[i], scen_name)) fn = scen_fns[i];
	if (!fn) die("badcase", "unknown scenario '%s'", scen_name);
	struct sigaction sa; memset(&sa, 0, sizeof sa);
	sa.sa_sigaction = crash_handler; sa.sa_flags = SA_SIGINFO | SA_ONSTACK | SA_RESETHAND;
	static char altstack[65536]; stack_t ss = { .ss_sp = altstack, .ss_size = sizeof altstack };
	sigaltstack(&ss, NULL);
	sigaction(SIGSEGV, &sa, NULL); sigaction(SIGBUS, &sa, NULL); sigaction(SIGABRT, &sa, NULL); sigaction(SIGILL, &sa, NULL); sigaction(SIGFPE, &sa, NULL);
	struct sigaction su; memset(&su, 0, sizeof su);
	su.sa_handler = sig_tramp; su.sa_flags = SA_NODEFER;
	sigaction(SIGUSR1, &su, NULL);
	if (!arena_ready) arena_init();
	struct thr *t = &T[0];
	memset(T, 0, sizeof T);
	nT = 1; nScen = 1; t->id = 0; t->state = ST_RUN; t->pt = pthread_self(); t->cur_op = -1; t->scen_idx = 0;
	t->prio = (nprio > 0 ? prio_list[0] * 1000 : 0) + 500000;
	t->stack_hi = &marker + 8192;
	self = t;
	pthread_key_create(&ds_key, ds_key_dtor);
	if (!rw_rng) rw_rng = 88172645463325252ull;
	if (!rd_rng) rd_rng = 88172645463325252ull;
	active = 1;
	fn();
	in_rt = 1;
	die("ok", "-");
}

/* ---- fork server ---- */
static int read_case(FILE *f, char *buf, size_t cap)
{
	size_t o = 0; char line[1024]; int got = 0;
	while (fgets(line, sizeof line, f)) {
		if (line[0] == '.' && (line[1] == '\n' || !line[1])) { buf[o] = 0; return 1; }
		size_t l = strlen(line);
		if (o + l + 1 < cap) { memcpy(buf + o, line, l); o += l; }
		got = 1;
	}
	buf[o] = 0;
	return got;
}
static void json_escape(const char *s, char *out, size_t cap)
{
	size_t o = 0;
	for (; *s && o + 8 < cap; s++) {
		unsigned char c = (unsigned char)*s;
		if (c == '"' || c == '\\') { out[o++] = '\\'; out[o++] = c; }
		else if (c < 32) o += snprintf(out + o, cap - o, "\\u%04x", c);
		else out[o++] = c;
	}
	out[o] = 0;
}
static int serve_one(char *text, int tr, int wall_ms)
{
	int pfd[2], efd[2];
	if (pipe(pfd) || pipe(efd)) return -1;
	fflush(stdout);
	pid_t pid = __real_fork();
	if (pid == 0) {
		setpgid(0, 0);
		close(pfd[0]); close(efd[0]);
		result_fd = pfd[1];
		if (!tr) dup2(efd[1], 2);
		close(efd[1]);
		run_case(text, tr);
		_exit(0);
	}
	close(pfd[1]); close(efd[1]);
	char res[2048]; size_t rn = 0; char err[4096]; size_t en = 0;
	struct pollfd p[2] = { { pfd[0], POLLIN, 0 }, { efd[0], POLLIN, 0 } };
	int open_fds = 2, timed_out = 0;
	struct timespec t0; clock_gettime(CLOCK_MONOTONIC, &t0);
	while (open_fds) {
		struct timespec t1; clock_gettime(CLOCK_MONOTONIC, &t1);
		long el = (t1.tv_sec - t0.tv_sec) * 1000 + (t1.tv_nsec - t0.tv_nsec) / 1000000;
		if (el >= wall_ms) { timed_out = 1; break; }
		int r = __real_poll(p, 2, (int)(wall_ms - el));
		if (r < 0 && errno == EINTR) continue;
		if (r == 0) { timed_out = 1; break; }
		for (int i = 0; i < 2; i++) {
			if (p[i].fd < 0 || !(p[i].revents & (POLLIN | POLLHUP | POLLERR))) continue;
			char tmp[1024]; ssize_t k = read(p[i].fd, tmp, sizeof tmp);
			if (k <= 0) { p[i].fd = -1; open_fds--; continue; }
			if (i == 0) { if (rn + k < sizeof res) { memcpy(res + rn, tmp, k); rn += k; } }
			else { if (en + k >= sizeof err) { size_t drop = en + k - sizeof err + 1; if (drop > en) drop = en; memmove(err, err + drop, en - drop); en -= drop; } if ((size_t)k < sizeof err - en) { memcpy(err + en, tmp, k); en += k; } }
		}
	}
	res[rn] = 0; err[en] = 0;
	kill(-pid, SIGKILL); kill(pid, SIGKILL);
	int st = 0; waitpid(pid, &st, 0);
	close(pfd[0]); close(efd[0]);
	char status[32] = "crash", msg[1100] = ""; unsigned long long fl = 0; unsigned long steps = 0; int nthr = 0;
	char *r = strstr(res, "RESULT ");
	if (r) {
		int m = 0;
		if (sscanf(r, "RESULT %31s %llx %lu %d %n", status, &fl, &steps, &nthr, &m) >= 4) { strncpy(msg, r + m, sizeof msg - 1); char *nl = strchr(msg, '\n'); if (nl) *nl = 0; }
	} else if (timed_out) { strcpy(status, "timeout"); snprintf(msg, sizeof msg, "engine wall limit %d ms", wall_ms); }
	else snprintf(msg, sizeof msg, "child died without result (wait status 0x%x)", st);
	char emsg[2400], eerr[9000];
	json_escape(msg, emsg, sizeof emsg);
	/* keep only the tail of stderr */
	const char *tail = en > 1500 ? err + en - 1500 : err;
	json_escape(tail, eerr, sizeof eerr);
	printf("{\"status\":\"%s\",\"flags\":%llu,\"steps\":%lu,\"threads\":%d,\"msg\":\"%s\",\"stderr\":\"%s\"}\n", status, fl, steps, nthr, emsg, eerr);
	fflush(stdout);
	return strcmp(status, "ok") != 0;
}

/* "cfg early 1" (driver: environment DSCHED_EARLY): the whole engine runs from a constructor that precedes the library's own constructors, so every
 * case meets a library that has not initialised itself yet (first use from another object's constructor; urcu-bp and urcu-memb document and handle it) */
int main(int argc, char **argv);
static int early_done;
static void __attribute__((constructor(102))) ds_early_main(int argc, char **argv)
{
	if (getenv("DSCHED_EARLY") && !early_done) { early_done = 1; exit(main(argc, argv)); }
}
int main(int argc, char **argv)
{
	int tr = 0, server = 0, wall_ms = 10000; const char *file = NULL;
	if (!getenv("DSCHED_NO_PERS") && !(personality(0xffffffff) & ADDR_NO_RANDOMIZE)) {
		if (personality(personality(0xffffffff) | ADDR_NO_RANDOMIZE) != -1) { setenv("DSCHED_NO_PERS", "1", 1); execv("/proc/self/exe", argv); }
	}
	for (int i = 1; i < argc; i++) {
		if (!strcmp(argv[i], "--trace")) tr = 1;
		else if (!strcmp(argv[i], "--trace2")) tr = 2;
		else if (!strcmp(argv[i], "--server")) server = 1;
		else if (!strcmp(argv[i], "--wall-ms") && i + 1 < argc) wall_ms = atoi(argv[++i]);
		else if (!strcmp(argv[i], "--list")) { for (int k = 0; k < nscen; k++) puts(scen_names[k]); return 0; }
		else file = argv[i];
	}
	static char buf[1 << 16];
	if (server) {
		while (read_case(stdin, buf, sizeof buf)) serve_one(buf, 0, wall_ms);
		return 0;
	}
	FILE *f = file && strcmp(file, "-") ? fopen(file, "r") : stdin;
	if (!f) { perror("case file"); return 2; }
	read_case(f, buf, sizeof buf);
	return serve_one(buf, tr, wall_ms);
}
