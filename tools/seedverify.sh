#!/bin/bash
# usage: tools/seedverify.sh <worktree> <variant dir name>    -- confirm a seeded change: applies, builds, test suite passes, demo fails with / passes without
W=$1; V=$2; S=$W/_seed/$V
cd $W || exit 9
git checkout -- . ; git apply --check $S/patch.diff || { echo "RESULT apply=FAIL"; exit 1; }
git apply $S/patch.diff
make -j16 >/dev/null 2>&1 || { echo "RESULT build=FAIL"; git checkout -- .; exit 1; }
SUITE=$(make -k check 2>&1 | grep -E '^# (TOTAL|PASS|FAIL|ERROR)' | head -4 | tr '\n' ' ')
( cd $S && timeout 400 bash ./run.sh >$S/verify_with.log 2>&1 ); RW=$?
git checkout -- . ; make -j16 >/dev/null 2>&1
( cd $S && timeout 400 bash ./run.sh >$S/verify_without.log 2>&1 ); RO=$?
echo "RESULT variant=$W/$V suite=[$SUITE] demo_with_patch_exit=$RW demo_without_patch_exit=$RO"
