#!/bin/bash
# usage: tools/seedimport.sh <property id> <variant> -- copy a confirmed seeded change from /tmp/seed-<id>/_seed/<variant> to /verif/seeded/<id>-<variant>/
ID=$1; V=$2; BASE=${3:-/tmp/seed-$ID}; S=$BASE/_seed/$V; D=/verif/seeded/$ID-$V
mkdir -p $D
cp $S/patch.diff $D/; cp $S/NOTES.md $D/ 2>/dev/null
mkdir -p $D/demo; for f in $S/*.c $S/*.h $S/run.sh $S/*.diff $S/Makefile; do [ -f "$f" ] && [ "$(basename $f)" != patch.diff ] && cp $f $D/demo/; done
grep "variant=$BASE/$V " $BASE/_verify.log > $D/verify.txt
echo imported $D; cat $D/verify.txt
