#!/usr/bin/env python3-vt
"""usage: tools/sample_status.py <prop module> <status> [n]  -- print generated cases whose engine status is <status> (debugging aid)"""
import sys, os, importlib
V = os.path.dirname(os.path.dirname(os.path.abspath(__file__)))
sys.path.insert(0, V + "/driver"); sys.path.insert(0, V + "/engine")
import hypothesis, core, build as ebuild
from hypothesis import given, settings, strategies as st, HealthCheck
mod = importlib.import_module("props." + sys.argv[1]); want = sys.argv[2]; n = int(sys.argv[3]) if len(sys.argv) > 3 else 1
eng = core.Engine(ebuild.build()); found = []

@hypothesis.seed(1)
@settings(max_examples=400, database=None, deadline=None, suppress_health_check=list(HealthCheck), phases=[hypothesis.Phase.generate])
@given(st.data())
def run(data):
    if len(found) >= n: return
    for text in mod.example(data.draw, "quick"):
        res = eng.run(text)
        if res["status"] == want and len(found) < n:
            found.append(text); print(text); print(res); print("-----")
run()
