#!/bin/bash
# usage: tools/muttest.sh <patch.diff> <property id> [tier]
# Runs a check against a scratch worktree of /repo with the patch applied (never touches /repo, /verif/evidence or /verif/replays).
P=$(readlink -f "$1"); ID=$2; TIER=${3:-quick}
W=$(mktemp -d /tmp/mut.XXXXXX); rmdir $W
git -C /repo worktree add --detach -f $W HEAD >/dev/null 2>&1 || exit 9
( cd $W && git apply "$P" ) || { echo "patch does not apply"; git -C /repo worktree remove --force $W; exit 9; }
mkdir -p $W/.verif-out
cd /verif && VERIF_REPO=$W VERIF_EVIDENCE_DIR=$W/.verif-out VERIF_REPLAY_DIR=$W/.verif-out ./check $ID --tier $TIER 2>&1 | grep -v "^$\|PLEASE REPORT\|WARNING: Hypothesis" | cut -c1-400
rc=${PIPESTATUS[0]}
if [ -n "$KEEP_REPLAY" ]; then mkdir -p "$KEEP_REPLAY"; cp $W/.verif-out/*.case "$KEEP_REPLAY"/ 2>/dev/null; fi
git -C /repo worktree remove --force $W
exit $rc
