#!/bin/bash
# usage: tools/mutant.sh <patch.diff> <command...>   apply a patch to /repo, run the command in /verif, always revert
P=$1; shift
cd /repo && git apply "$P" || { echo "patch does not apply"; exit 9; }
cd /verif && "$@"; rc=$?
git -C /repo checkout -- . 
exit $rc
