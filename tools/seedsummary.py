#!/usr/bin/env python3
"""Writes seeded/<name>/meta.json for every imported seeded change and seeded/SUMMARY.md (which check catches which change)."""
import json, os, re, glob
V = os.path.dirname(os.path.dirname(os.path.abspath(__file__)))
INFO = {
 "C01-a": ("synchronize_rcu(): urcu_move_waiters() moved after the grace period, so a caller that queues behind the leader is released by a grace period that began before its own call", ">=2 concurrent synchronize_rcu() callers (memb/mb), the second arriving while the leader waits for a reader, and a reader entering in between"),
 "C01-b": ("urcu-bp synchronize_rcu(): parity flip hoisted before the first scan (single-phase grace period)", "bp flavor; a reader stalled inside rcu_read_lock() between loading gp.ctr and storing its own word across one whole grace period, then a second synchronize_rcu()"),
 "C02-a": ("urcu-wait: EINTR from a follower's FUTEX_WAIT jumps to skip_futex_wait: the follower sets RUNNING itself, the leader then skips it and TEARDOWN never comes", ">=3 concurrent synchronize_rcu() callers (leader, one blocked on the gp lock, a true follower), a reader holding the grace period, EINTR on the sleeping follower"),
 "C02-b": ("reader exit: FUTEX_WAKE issued before the gp futex word is reset to 0 (lost wake-up)", "updater asleep in FUTEX_WAIT; the woken updater must run between the reader's wake and its store"),
 "C03-a": ("call_rcu helper: synchronize_rcu() before splicing the queue (callbacks queued during the wait run after a grace period that began before them)", "helper already blocked in a grace period, a new reader, then call_rcu()"),
 "C03-b": ("_call_rcu_data_free(): 'leftover callbacks?' tested before STOP, so callbacks re-queued by the final batch are never handed to the default helper", "self-re-enqueuing callbacks on a non-default helper destroyed while it runs a batch"),
 "C04-a": ("_call_rcu_data_free(): helper unlinked from the helper list before it is stopped, so rcu_barrier() skips it while it still owns callbacks", "callbacks pending on a helper being freed while another thread calls rcu_barrier()"),
 "C04-b": ("rcu_barrier(): barrier_count stored after the markers are queued (a fast helper's decrement is overwritten; barrier never returns)", "several helpers, some already busy so that a marker runs while the loop is still queueing"),
 "C05-a": ("_cds_lfht_replace() sets REMOVED without REMOVAL_OWNER: a del racing a replace of the same node also wins", "two threads on one node: deleter has read old->next, replacer's cmpxchg lands before the deleter's flagging"),
 "C05-b": ("_cds_lfht_add(): 'bucket node goes first in its identical-hash chain' rule removed: after a grow, lookups of a resident node whose hash equals the new bucket index miss it", "identity-like hash value equal to a bucket index created by a grow"),
 "C06-a": ("_cds_lfht_replace(): new_node->next assigned once outside the cmpxchg retry loop (stale successor after a retry)", "old->next changes between the iterator capture and the cmpxchg (neighbour insert/delete)"),
 "C06-b": ("_cds_lfht_add() uniquify: '&& !is_bucket(next)' dropped, a unique node can be linked in front of its own bucket node and becomes invisible", "hash equal to a bucket index, add_unique racing a grow between bucket link and size publication"),
 "C07-a": ("_cds_lfht_gc_bucket(): returns after one unlink attempt on the target even when the cmpxchg failed (node stays linked and is freed)", "pred->next changed by another thread between the deleter's read and its cmpxchg"),
 "C07-b": ("fini_table(): a bucket level is freed before the grace period that follows its unlinking (multi-level shrink)", "shrink by >=2 orders with a reader positioned on a bucket of the removed level"),
 "C08-a": ("same change as C05-b, exercised sequentially: grow then lookup/del of hash j", "stored node whose hash is exactly a bucket index j with old_size <= j < new_size"),
 "C08-b": ("cds_lfht_is_empty() off by one: AUTO_RESIZE destroy returns 0 on a table holding exactly one node at the list tail", "AUTO_RESIZE flag, single node in the last bucket, destroy"),
 "C09-a": ("partition_resize_helper(): when pthread_create fails for the 2nd or later helper the remaining buckets are not processed", "partitioned resize with EAGAIN on a non-first helper"),
 "C09-b": ("same change as C07-b", "shrink by >=2 orders with a concurrent reader"),
 "C10-a": ("wfcq non-blocking dequeue: after the failed tail cmpxchg the WOULDBLOCK path no longer restores head->node.next (queue corrupted for good)", "exactly one linked node and an enqueuer suspended between tail exchange and link store, non-blocking dequeue"),
 "C10-b": ("wfcq splice: source tail reset by load+store instead of xchg (an enqueue landing in between is lost)", "enqueue on the source queue concurrent with a splice"),
 "C11-a": ("wfstack pop: STATE_LAST decided by re-reading the head after the cmpxchg", "pop of the only node with a push landing between the cmpxchg and the re-read"),
 "C11-b": ("cds_lfs_pop_all_blocking() no longer takes the pop mutex (ABA between pop_blocking and pop_all with immediate node reuse)", "mixed pop_blocking / pop_all_blocking consumers, popped nodes pushed back at once"),
 "C12-a": ("lfq enqueue: tail advanced by a plain store instead of cmpxchg (tail can move backwards onto a node that is later freed)", "enqueuer delayed between link and tail update while others advance the tail; node then dequeued and recycled"),
 "C12-b": ("lfq dequeue: retired dummy freed at once instead of through call_rcu (ABA on head)", "queue repeatedly running empty with a dequeuer delayed before its head cmpxchg"),
 "C13-a": ("defer_rcu: full-queue threshold '>' instead of '>=' (a 3-slot entry overwrites the oldest pending one)", "queue fill of exactly SIZE-2 followed by a call that needs the marker+function+data encoding (odd function address)"),
 "C13-b": ("rcu_defer_unregister_thread(): own queue flushed before the mutexes are taken (runs concurrently with the reclaimer: calls run twice)", "unregister with pending calls while the reclaimer or another barrier is inside its grace period"),
 "C14-a": ("start_poll_synchronize_rcu(): while the worker is active the handle is the in-flight target, so it completes with a grace period that began before it", "handle taken while a grace period is in flight and a newer reader is inside its section"),
 "C14-b": ("poll worker callback: 'active = false' stored after the lock is dropped (a start_poll in the window gets a handle nobody will complete)", "start_poll landing between the callback's unlock and its store"),
 "C15-a": ("synchronize_rcu() (memb/mb): final cds_list_splice replaced by cds_list_replace: a thread that registered during the wait is dropped from the registry", "registration during the second-phase wait of a grace period, then a later grace period"),
 "C15-b": ("urcu-bp find_chunk() always returns the first chunk: 'used' of later chunks never decreases, freed slots are not reused", "bp, more readers than the first chunk holds, growth by a new chunk (in-place mremap refused), then thread exit/arrival waves"),
 "C16-a": ("urcu-bp child prune scans only the first 'used' slots of each chunk", "bp, early-registered threads exited (holes), a later one inside a section at fork; the child's grace period waits for it forever"),
 "C16-b": ("workqueue create_worker() in the fork child leaves the inherited PAUSED flag set", "a forked child that forks again (with handlers) while its resize worker is busy"),
 "C17-a": ("wfcq non-blocking dequeue calls the blocking wait after the failed tail cmpxchg", "single linked node, enqueuer suspended between tail exchange and link store"),
 "C17-b": ("_cds_lfht_add(): helping cmpxchg compares against clear_flag(iter): never succeeds when the predecessor is a bucket node", "del suspended between flagging and unlinking the first node of a bucket chain; add to that bucket"),
 "C18-a": ("cds_list_add_tail_rcu() publishes the node before its next/prev are set", "reader on the old tail between the two stores"),
 "C18-b": ("cds_hlist_del_rcu() clears the removed node's next/prev", "reader positioned on the node being removed (not the last one)"),
 "C19-a": ("urcu-bp synchronize_rcu(): signal mask restored before the registry/gp mutexes are released", "bp, a never-registered thread calling synchronize_rcu(), a signal whose handler takes the read lock pending at that moment"),
 "C19-b": ("urcu-bp register: the 'already registered by a handler' re-check returns without restoring the signal mask", "bp, handler that takes the read lock landing inside the thread's first rcu_read_lock() before signals are blocked"),
 "C20-a": ("x86 uatomic_xchg skips the instruction when the value is unchanged (no barrier on that path)", "store-buffer litmus whose xchg stores the value already present"),
 "C20-b": ("generic uatomic_sub_return negates the operand before widening it", "8-byte target with an unsigned int operand"),
 "C01-c": ("synchronize_rcu() (memb): the first smp_mb_master() weakened to a local cmm_smp_mb()", "memb with sys_membarrier; a reader's counter store still in its store buffer at the instant of the first scan (x86-TSO only)"),
 "C01-d": ("urcu-qsbr synchronize_rcu(): the gp_end label moved after the 'go back online' epilogue: a merged waiter that was online returns offline", "qsbr, >=3 overlapping callers so that one is a true follower, which then reads inside its implicit section while another updater reclaims"),
 "C02-c": ("urcu-qsbr wait_for_readers(): cmm_smp_mb() after 'futex = -1 / waiting = 1' weakened to a write barrier (updater-side store-buffering lost wake-up)", "x86-TSO; the reader announces its quiescent state while the updater's two stores are still buffered"),
 "C02-d": ("futex_noasync() falls back on the blocking compat implementation on ENOSYS", "ENOSYS on a FUTEX_WAIT but not on the matching FUTEX_WAKE (the documented spurious case)"),
 "C03-c": ("wfcq splice: source tail reset by load+store instead of xchg (as used by the call_rcu helper to grab its queue)", "a call_rcu() enqueue landing inside the two-instruction window of the helper's splice"),
 "C03-d": ("_call_rcu_data_free(): after handing leftovers to the default helper the wake-up goes to the stopped helper instead", "helper freed with callbacks still queued while the default helper is asleep and nothing else is enqueued on it"),
 "C05-c": ("_cds_lfht_del(): REMOVED flag set with a plain store of the previously loaded next pointer instead of an atomic or", "an add linking a node right behind the node being deleted between the deleter's load and store"),
 "C05-d": ("_cds_lfht_replace(): new_node->next assigned once before the cmpxchg retry loop", "the cmpxchg on old->next failing once because a neighbour was inserted"),
 "C10-c": ("wfcq dequeue of the last node: head->next reset to NULL moved after the successful tail cmpxchg", "an enqueue doing both its tail exchange and its link store between the dequeuer's cmpxchg and the late store"),
 "C10-d": ("wfcq non-blocking dequeue: the WOULDBLOCK path after a failed tail cmpxchg no longer restores head->next", "single linked node, enqueuer suspended between tail exchange and link store, non-blocking dequeue"),
 "C11-c": ("wfstack pop: head cmpxchg replaced by compare-then-store", "a push's exchange landing between the popper's re-read and its store"),
 "C11-d": ("lfstack push: 'was non-empty' result derived from 'some cmpxchg attempt failed'", "cmpxchg failing twice with the stack emptied in between"),
 "C12-c": ("lfq enqueue: tail advance by compare-then-plain-store", "enqueuer delayed between the compare and the store while the tail moves on and the node is dequeued and recycled"),
 "C12-d": ("lfq dequeue slow path uses the dummy it just enqueued as head->next", "an enqueue landing between the dequeuer's read of head->next == NULL and the dummy's link"),
 "C14-c": ("call_rcu worker: 'futex = -1' re-armed with a plain release store and no barrier before re-reading the queue", "x86-TSO; a call_rcu()/start_poll enqueue while the worker's store is buffered and it has just seen the queue empty"),
 "C14-d": ("same change as C03-d (wake-up sent to the stopped helper), reached through the polling worker callback", "per-thread helper freed after two handles were taken, default helper asleep"),
 "C18-c": ("cds_list_replace_rcu(): node published before its next pointer is set", "reader on the predecessor between the two stores"),
 "C18-d": ("cds_hlist_entry_safe() evaluates its pointer argument twice (two rcu_dereference loads in the _2 iterator)", "tail node removed between the two loads"),
 "C04-c": ("rcu_barrier(): 'futex = -1' with a plain store and only a write barrier before reading barrier_count (store-buffering lost wake-up)", "x86-TSO; the last marker callback reads futex == 0 while the waiter's store is still buffered"),
 "C04-d": ("_call_rcu_data_free(): helper unlinked from the helper list at the start (before the unlock/relock gap of the leftover hand-over)", "rcu_barrier() taking call_rcu_mutex inside that gap while the freed helper still owns callbacks"),
 "C06-c": ("_cds_lfht_gc_bucket(): unlink by compare-then-store instead of cmpxchg", "another updater changing the predecessor's next (replace/del/insert) inside the two-instruction window"),
 "C06-d": ("same change as C05-d/C08-d (replace retry keeps a stale successor)", "cmpxchg on old->next failing once because a neighbour was inserted"),
 "C07-c": ("_cds_lfht_del(): REMOVAL_OWNER taken by load, test, store instead of xchg", "two deleters of one node inside the window: both return 0"),
 "C07-d": ("partition_resize_helper(): early return whenever some helper had been started, leftovers after an EAGAIN on a later helper are skipped", "partitioned shrink with pthread_create EAGAIN on a non-first helper; the level is freed with bucket nodes still linked"),
 "C08-c": ("same change as C05-c (REMOVED flag by plain store); with one application thread it needs the AUTO_RESIZE worker as the second thread", "del of a node while the resize worker links a bucket node behind it (caught by the concurrent checks C05/C06/C09, not by the sequential C08 target, which synchronises with the worker)"),
 "C08-d": ("_cds_lfht_replace(): new_node->next assigned once before the retry loop", "replace through a stale iterator after an add directly behind the old node (sequential)"),
 "C09-d": ("partition_resize_helper(): after EAGAIN only the failed helper's partition is processed, not all leftovers", "partitioned resize with EAGAIN on a helper that is not the last"),
 "C13-c": ("_defer_rcu(): full barrier between the head store and the futex load weakened to a write barrier (lost wake-up of the reclaimer)", "x86-TSO; defer_rcu() within the reclaimer's awake-to-asleep transition, then no further API call"),
 "C13-d": ("wait_defer(): stop flag tested before the futex is decremented", "last thread unregistering exactly when the reclaimer enters wait_defer(): pthread_join never returns"),
 "C15-c": ("urcu-qsbr thread_offline: ctr = 0 stored without the full barrier before reading 'waiting' (lost wake-up at unregister)", "x86-TSO; reader unregisters while the updater arms its futex"),
 "C15-d": ("urcu-bp register: 'already registered by a handler' re-check moved before signals are blocked", "signal whose handler takes the read lock between the check and the sigprocmask of the thread's first read-side call: the thread is registered twice, one slot leaks"),
 "C16-c": ("call_rcu helper pause: PAUSED published before rcu_unregister_thread()", "fork while a paused helper is still inside its unregistration"),
 "C16-d": ("cds_lfht_after_fork_child(): early return without unlocking cds_lfht_fork_mutex when no work queue exists yet", "fork while another thread is inside the process's first cds_lfht_new(); the child then creates a table"),
 "C17-c": ("same change as C10-c (late NULL store in the last-node dequeue)", "dequeuer suspended between the tail cmpxchg and the store while an enqueue completes (caught by C10; the C17 solo thread is the only consumer)"),
 "C17-d": ("_cds_lfht_add(): does not help unlinking a logically deleted node that has no removal owner yet, spins instead", "del suspended between flagging and unlinking; add into the same bucket"),
 "C19-c": ("urcu-mb read_lock: full barrier after the reader-word store weakened to a compiler barrier", "x86-TSO; outermost rcu_read_lock() (in a handler or not) racing the updater's first scan"),
 "C19-d": ("urcu-bp thread exit: the TLS reader pointer is cleared only after the signal mask is restored", "signal handler using the read side on an exiting thread between unmask and the store: its section is invisible to grace periods"),
 "C20-c": ("x86 uatomic_add_return/sub_return: operand 0 takes a load-only fast path (no barrier)", "store-buffer litmus with add_return(&x, 0)"),
 "C20-d": ("x86 uatomic_cmpxchg: fails fast without the locked instruction and returns a second load", "the expected value written back between the two loads: false success (broken test-and-set lock)"),

 # ---- round 4: (e) configuration-specific, (f) two cooperating sites
 "C01-e": ("qsbr: reader classified ACTIVE_CURRENT by counter parity instead of equality", "qsbr flavor; a reader whose snapshot is two grace periods old (same parity) while a third synchronize_rcu() scans"),
 "C01-f": ("urcu-bp: fork handlers no longer hold rcu_gp_lock; the child re-initialises it", "bp flavor; fork() while another thread is inside synchronize_rcu(); the child's first grace period runs on the half-updated registry lists"),
 "C02-e": ("qsbr synchronize_rcu() called by an online reader stores ctr=0 without waking the grace-period futex", "qsbr; an updater asleep in FUTEX_WAIT waiting for exactly that reader, which now enters its own synchronize_rcu()"),
 "C02-f": ("memb/mb wait_gp(): EINTR returns to the rescan without resetting the futex word + the next wait sleeps on any negative value", "a signal (EINTR) on the sleeping updater followed by a reader's wake that decrements the stale word"),
 "C03-e": ("free_all_cpu_call_rcu_data() drops the grace period between clearing the per-CPU pointers and destroying the helpers", "per-CPU helpers; a call_rcu() that has read the per-CPU pointer but not yet enqueued while the helpers are freed"),
 "C03-f": ("helper walks its batch without waiting for half-linked nodes + call_rcu() skips the read-side lock for per-thread helpers", "per-thread helper; an enqueuer suspended between the tail exchange and the link store while the helper runs the batch"),
 "C04-e": ("call_rcu() drops the read-side lock before enqueueing", "per-CPU helper configuration; the helper is freed (set_cpu_call_rcu_data(NULL) + grace period + call_rcu_data_free) between the lookup and the enqueue, or rcu_barrier misses the callback"),
 "C04-f": ("rcu_barrier(): every marker callback wakes the waiter + the waiter no longer re-checks the count", ">=2 helpers with pending callbacks; the first marker's wake-up releases the barrier while the second helper still has callbacks queued"),
 "C05-e": ("fini_table() skips the grace period for bucket orders inside the initial allocation", "shrink below the initial order while a lookup/traversal is positioned on a bucket node of the level being removed"),
 "C05-f": ("_cds_lfht_add() gc_node: BUCKET flag taken from the successor instead of the removed node", "an add that helps unlink a removed node whose successor is a bucket node (or the reverse): the predecessor's flag bits are wrong afterwards"),
 "C06-e": ("add-side gc leaks the BUCKET flag of a removed bucket node", "shrink in progress (bucket nodes being removed) while an add traverses the chain and helps"),
 "C06-f": ("cds_lfht_next_duplicate() continues from the node's current successor + add_unique passes a hand-made iterator", "duplicate walk / add_unique while the node it stands on is being removed or replaced"),
 "C07-e": ("resize worker goes QSBR-offline for the whole resize", "qsbr flavor, lazy (AUTO_RESIZE) resize by the worker while an owner removes a node, waits a grace period and frees it: the worker still holds the pointer"),
 "C07-f": ("RCU read lock hoisted from the partition functions into the helper-thread wrapper; the single-threaded fallback has none", "resize of a level big enough for partitioning but run by the fallback path (one cpu / pthread_create failure) concurrent with removal + reclamation"),
 "C07-x": ("order allocator re-uses a bucket level it has already freed (round 4, extra)", "shrink then grow over the same order: the second grow writes into the level freed after the shrink's grace period"),
 "C08-e": ("cds_lfht_resize_lazy_count(): clamp to max_nr_buckets lost", "AUTO_RESIZE|ACCOUNTING table whose node count crosses a power of two above max_nr_buckets"),
 "C08-f": ("replace stops setting REMOVAL_OWNER, del starts trusting it", "del racing with replace of the same node: both report success (two owners)"),
 "C09-e": ("cds_lfht_is_empty() returns early without read_unlock()/thread_offline()", "cds_lfht_destroy() of a non-empty AUTO_RESIZE table from outside a read-side section: the caller's read-side state leaks (later grace periods hang)"),
 "C09-f": ("upper clamp moved from cds_lfht_resize_lazy_grow() to the grow worker", "chain-length triggered growth requested beyond max_nr_buckets: resize_target exceeds the maximum and later count-driven shrinks/grows misbehave"),
 "C10-e": ("legacy cds_wfq: dummy node re-queued without resetting its next pointer", "legacy wfqueue API; dequeue reaching the dummy while the queue is non-empty: the stale next pointer re-links old nodes (duplicates / cycle)"),
 "C10-f": ("cds_wfcq_empty() reduced to the tail test + splice no longer resets the source head", "splice of a queue followed by empty()/dequeue on the source while a new enqueue is half done"),
 "C11-e": ("legacy cds_lfs_pop_rcu(): a failed cmpxchg falls through to 'return NULL' (empty)", "legacy rculfstack API with two concurrent poppers/pushers: pop reports empty on a non-empty stack"),
 "C11-f": ("___cds_wfs_end() tests bit 0 instead of equality; cds_wfs_next_nonblocking relied on WOULDBLOCK != END", "non-blocking iteration of a popped list while a pusher is suspended between the head exchange and the next store: the list is truncated"),
 "C12-e": ("cds_lfq_destroy_rcu() decides 'empty' from the tail node only", "queue at rest shaped [node, dummy] (dequeuer appended its dummy after an enqueuer linked a node): destroy frees a live node / asserts"),
 "C12-f": ("try-once append helper + 'no dummy needed if the append failed' in dequeue", "enqueuer suspended between link and tail advance while a dequeuer drains to the last node: head becomes NULL"),
 "C13-e": ("rcu_defer_num_callbacks() counts only the last queue visited ('=' for '+=')", ">=2 registered defer threads, the oldest idle; a younger thread queues while the reclaimer is awake: its call is never run by the background reclaimer"),
 "C13-f": ("rcu_defer_barrier() skips idle queues in the snapshot loop + guards the flush with last_head != tail", "a thread that re-registered (or flushed with barrier_thread) and is idle while another has pending calls: stale entries are invoked"),
 "C14-e": ("polling ids start at -1024 + poll_state_synchronize_rcu() compares unsigned", ">=1024 polled grace periods in one process (id wrap): a handle completes at once / never"),
 "C14-f": ("wake_call_rcu_thread() skips the wake-up when called by the helper itself + the helper no longer re-checks the queue before sleeping", "start_poll while the poll worker's grace period is in flight (callback re-queues itself from the helper), futex-woken helper, no other traffic"),
 "C15-e": ("bp expand_arena(): in-place growth clears the range after the grown chunk (capacity updated before the memset)", "bp registry growing in place (free address range after the chunk) to more than 16 simultaneously registered threads"),
 "C15-f": ("bp: TLS reader pointer cleared by the exit notifier after signals are unblocked instead of under the registry lock", "a signal whose handler uses the read-side delivered to an exiting thread right after its unregistration"),
 "C16-e": ("call_rcu_after_fork_child() early-returns when there is no default helper", "call_rcu used only through per-thread / per-CPU helpers (no default helper) before fork(): child's callbacks never run, child's call_rcu/rcu_barrier hang"),
 "C16-f": ("urcu_bp_before_fork() takes init_lock first + thread-exit unregister calls urcu_bp_exit() under the registry lock (ABBA)", "bp; fork() racing with a reader thread exiting and a synchronize_rcu() in flight: three-party deadlock"),
 "C17-e": ("cds_lfht_resize_lazy_count(): shrink cmpxchg loop lost the update of the expected value", "AUTO_RESIZE|ACCOUNTING table whose count falls through two shrink thresholds while the worker lags: a lock-free del spins forever"),
 "C17-f": ("lfq: tail helping moved from enqueuers to dequeuers", "an enqueuer (or a dequeuer appending the dummy) suspended between the append and the tail advance while another enqueue runs: it never returns"),
 "C18-e": ("cds_hlist_add_head_rcu(): new->next only written when the list is non-empty", "hlist API, empty list, node whose next field is stale (recycled memory / re-inserted node): readers follow the stale pointer"),
 "C18-f": ("cds_list_del_rcu() forwards to cds_list_del(), which now leaves the element self-linked", "a reader positioned on the node at the moment it is removed: its traversal never terminates"),
 "C19-e": ("urcu-wait: EINTR on a batched synchronize_rcu() waiter jumps to skip_futex_wait", "memb/mb, >=3 overlapping synchronize_rcu() callers, a signal (no SA_RESTART) on the sleeping follower: its call never returns"),
 "C19-f": ("bp: the all-signals set is computed in _urcu_bp_init() but used by urcu_bp_register() before it", "bp; the process's first registration happens before the library constructor (early-registration path) and a signal with a read-side handler lands inside it: self-deadlock"),
 "C20-e": ("x86 2-byte uatomic_add_return/sub_return lose the lock prefix", "2-byte operand, add_return/sub_return, >=2 cpus contending: lost updates"),
 "C20-f": ("qualifier-stripping typeof helper ((x)+0 promotes) used for the result casts of cmpxchg/xchg/add_return", "C caller, x86 asm implementation, 1- or 2-byte operand, negative or wrapping value, result used un-narrowed"),

 # ---- round 5: (g) scale needles, (h) indirect defects in shared infrastructure
 "C01-g": ("URCU_GP_CTR_PHASE moved to bit 16 (nest count shrinks to 16 bits)", "memb/mb; a reader nested exactly a multiple of 65536 deep while a grace period samples it"),
 "C01-h": ("cds_list_splice(): last->next = head instead of head->next (correct only for an empty destination)", "a thread registering while a grace period waits with the registry lock dropped: it is dropped from the registry and ignored by later grace periods"),
 "C02-g": ("memb read_lock: 'outermost?' test on the low 16 bits of the nest count", "memb; nesting depth crossing 65536: the count underflows, the idle thread looks inside a section, the next synchronize_rcu() never returns"),
 "C02-h": ("uatomic/generic.h: CMM_SEQ_CST stores demoted to release stores", "default (non-builtin) build, mb/qsbr reader exit 'store; full barrier; test futex': store-buffering lets the wake-up be missed (real hardware reordering)"),
 "C03-g": ("per-CPU helper table: memset clears N bytes instead of N entries", "per-CPU helpers on a cpu index >= N/8 with the table in recycled (non-zero) memory: stale pointers are taken for helpers"),
 "C03-h": ("urcu-wait: FUTEX_WAIT expected value re-read from memory instead of the constant", ">=2 concurrent synchronize_rcu() callers (busy helpers); the waker's store lands between the waiter's test and its syscall: the waiter sleeps forever"),
 "C04-g": ("call_rcu helper caps a batch at 4096 callbacks and re-queues the overflow at the tail", ">4096 callbacks accumulated on one helper and rcu_barrier() called while that batch is processed: the marker overtakes the overflow"),
 "C04-h": ("wfcqueue blocking iterator treats next == NULL as end of list", "an unprotected enqueuer (rcu_barrier's marker, call_rcu_data_free's splice) suspended between the tail exchange and the link while the helper walks the batch"),
 "C05-g": ("partition_resize_helper(): thread count capped at nr_cpus_mask instead of nr_cpus_mask + 1", ">=3 possible cpus and a resize level with at least MIN_PARTITION_PER_THREAD x cpus buckets: the last partition is never initialised / unlinked"),
 "C05-h": ("cds_list_splice(): head->prev set instead of head->next->prev", "a thread that registered during a grace-period wait unregisters before the next one: earlier readers drop out of the registry; fini_table's grace period is empty"),
 "C06-g": ("same site as C05-g (partition_resize_helper thread cap), found independently for C06", "as C05-g: add_unique inserts a second node for a key hashing into the uninitialised partition"),
 "C06-h": ("x86 8-byte uatomic_or loses its lock prefix", "default x86 build; del (uatomic_or REMOVED) racing with replace/add on the same next word on two cpus: both succeed"),
 "C07-g": ("remove_table_partition(): loop bound drops the start offset", "shrink of a level handled by >=2 helper threads: only the first partition is unlinked, the level is freed with buckets still linked"),
 "C07-h": ("same change as C06-h (8-byte uatomic_or without lock), found independently for C07", "del racing with replace on one node: two owners"),
 "C08-g": ("same site as C05-g, found independently for C08", "table growing through 4096 x P buckets with P >= 4 possible cpus: stored keys in the last 1/P of the level are not found"),
 "C08-h": ("workqueue: work->func stored after the work item is enqueued", "AUTO_RESIZE table; the worker already awake dequeues the item between the two stores and calls an unset function pointer"),
 "C09-g": ("same site as C07-g, found independently for C09", "shrinking a table of >= 2 x MIN_PARTITION x 2 buckets: bucket memory released while still linked"),
 "C09-h": ("same cds_list_splice() change as C01-h, found independently for C09", "a reader that registered during a resize's grace period is ignored by a later shrink's grace period"),
 "C10-g": ("wfcq iterator returns tail->p as the next node when node->next is still NULL", ">=2 enqueues behind the cursor with the first one suspended between tail exchange and link: iteration skips nodes"),
 "C10-h": ("x86 8-byte uatomic_cmpxchg loses its lock prefix", "default x86 build; dequeuer's last-node cmpxchg on tail racing with an enqueuer's xchg: nodes lost / queue wedged"),
 "C11-g": ("cds_lfs_push_rcu(): result is the previous head pointer truncated to int instead of !!head", "legacy rculfstack; previous top node at an address whose low 32 bits are zero: push reports 'was empty' on a non-empty stack"),
 "C11-h": ("same cds_list_splice() change as C01-h, found independently for C11", "a popper thread that registered during a grace period is not waited for: ABA, a node popped twice"),
 "C12-g": ("cds_lfq_dequeue_rcu() gives up (returns NULL) after 64 lost races", ">=64 head advances by other threads during one dequeue call on a queue that is never empty"),
 "C12-h": ("same cds_list_splice() change as C01-h, found independently for C12", "dummy nodes reclaimed while a late-registered dequeuer is still in the section in which it saw them"),
 "C13-g": ("defer decode loop masks the ring index once per entry and reads the following slots unmasked", "a multi-slot entry straddling the end of the queue array (>= DEFER_QUEUE_SIZE - 1 slots consumed): argument/function read past the array"),
 "C13-h": ("futex.h: the ENOSYS fallback of FUTEX_WAIT sleeps on the compat condition variable instead of polling", "FUTEX_WAIT returning ENOSYS while FUTEX_WAKE works (spurious ENOSYS): the reclaimer sleeps forever"),
 "C14-g": ("poll id comparison moved into a helper returning int (difference truncated to 32 bits)", "a completed handle kept for more than 2^31 further polled grace periods reads 'not completed' again"),
 "C14-h": ("cds_list_splice() rewritten with replace semantics", "a reader that registered during the worker's grace period is ignored: a later handle completes while that reader is still in its section"),
 "C15-g": ("memb/mb wait_gp(): the EAGAIN exit returns without re-taking the registry lock", "the futex word changing between the user-space check and FUTEX_WAIT: the updater scans the registry unlocked and unlocks a mutex it does not hold"),
 "C15-h": ("call_rcu helper acknowledges the fork pause before it unregisters", "qsbr; fork() landing between the acknowledgement and the unregistration: the child's registry holds a thread that does not exist there"),
 "C16-g": ("urcu_bp_prune_registry() skips completely full chunks", "bp; >= 8 registered readers (a full first chunk), one of them inside a section at fork(): the child's grace periods wait for it forever"),
 "C16-h": ("___cds_wfcq_splice(): destination append open-coded as load tail / store tail / link", "fork child merging >=2 inherited helpers' queues into the default helper's live queue while it is being consumed"),
 "C17-g": ("_cds_lfht_add() restarts from the bucket when it has walked >100 nodes and resize_target > size", "a chain of >100 distinct-hash nodes with a grow requested but not yet published: the add never returns"),
 "C17-h": ("get_default_call_rcu_data() always takes call_rcu_mutex (lock-free fast path removed)", "rculfqueue dequeue stepping over a dummy (call_rcu) while another thread is suspended holding call_rcu_mutex (rcu_barrier, helper creation, fork handlers)"),
 "C18-g": ("same change as C01-g (phase bit at 16), found independently for C18", "a list traversal nested 65536 sections deep is not waited for by the grace period that precedes the free"),
 "C18-h": ("call_rcu helper calls synchronize_rcu() before splicing its queue", "a node passed to call_rcu while the helper's grace period is in flight is reclaimed when that older grace period ends, under a newer reader"),
 "C19-g": ("same change as C01-g (phase bit at 16), found independently for C19", "a handler's rcu_read_lock() as the 65536th nesting level: its section is not protected and rcu_read_ongoing() is 0 inside it"),
 "C19-h": ("same cds_list_splice() change as C01-h, found independently for C19", "a thread (bp: a handler's first rcu_read_lock) registering during a grace period is ignored afterwards"),
 "C20-g": ("x86 8-byte uatomic_inc uses incl (only the low 32 bits are incremented)", "8-byte counter whose low 32 bits are all ones"),
 "C20-h": ("caa_cast_long_keep_sign() masks instead of sign-extending", "signed operand narrower than the object with a negative value (default x86 / generic implementations)"),

 # ---- round 6: one free-form change per property for eight properties, run against the finished checks WITHOUT strengthening first
 "C02-i": ("futex(): a process-wide 'futex unavailable' flag set by the first ENOSYS makes every later call skip the system call", "a thread already asleep in FUTEX_WAIT, then one spurious ENOSYS elsewhere: its wake-up is never issued"),
 "C03-i": ("call_rcu_wake_up(): FUTEX_WAKE issued before the helper's futex word is reset to 0", "the woken helper re-checks the word, still sees -1 and sleeps again; the store of 0 then hides all later wake-ups"),
 "C05-i": ("partition_resize_helper(): leftover partition after an EAGAIN on a later helper thread is dropped ('start == 0 &&' removed)", "pthread_create failing for the 2nd or a later resize helper: part of the new level is never initialised"),
 "C07-i": ("_cds_lfht_add(): 'bucket node goes first among identical hashes' decided from the node already stepped over", "a regular node whose hash equals a not yet existing bucket index, then an expand: the bucket node is linked after it, a later del cannot unlink it"),
 "C10-i": ("cds_wfcq_splice_blocking() locks the destination queue instead of the source", "two consumers of one queue through the locked API, one of them splicing: a node is handed out twice"),
 "C13-i": ("rcu_defer_barrier(): queue heads sampled after synchronize_rcu() instead of before", "a call queued by another thread while the reclaimer's grace period is in flight runs without a grace period of its own"),
 "C15-i": ("bp cleanup_thread() no longer clears the slot's counter", "a slot pruned in a fork child (or left by a thread exiting inside a section) while its owner was in a section, then reused"),
 "C16-i": ("bp after_fork handlers restore the signal mask from the shared save slot after dropping rcu_gp_lock", "two threads with different signal masks forking concurrently (bp handlers): one restores the other's mask"),
 "C01-j": ("urcu-bp read_lock: outermost and nested branches folded into one store (every nested lock re-takes the phase snapshot)", "bp flavor; outer section begun before synchronize_rcu(), nested lock taken after the parity flip, outer section still open"),
 "C04-j": ("_call_rcu_data_free(): emptiness test, splice of leftovers and list removal no longer share one call_rcu_mutex section", "rcu_barrier() taking the mutex between the splice and cds_list_del() of a helper being freed: its marker is never run"),
 "C06-j": ("_cds_lfht_add(): the add_unique duplicate scan gated on the 'first node of an identical-hash run' test used for chain accounting", "key whose hash equals its bucket index (hash < table size): the bucket node has the same reverse hash, so the scan never runs"),
 "C08-j": ("_cds_lfht_replace(): new_node->next = old_next hoisted out of the cmpxchg retry loop", "lookup, then an add landing directly behind that node, then replace through the earlier iterator (single thread)"),
 "C09-j": ("partition_resize_helper(): on EAGAIN the fallback covers only the failed partition, not all leftovers", "partitioned resize (>= 16384 buckets, > 1 cpu) with pthread_create failing for a helper that is not the last one"),
 "C11-j": ("_cds_lfs_pop_all_blocking() no longer takes the pop mutex (empty fast path + unserialised pop_all)", "mutex-protected lfstack API, nodes re-pushed at once, a popper delayed between its loads and its cmpxchg while pop_all + re-push happen"),
 "C12-j": ("lfq dequeue: enqueue_dummy() returns the appended dummy and the dequeuer uses it as next instead of re-reading head->next", "head is the last real node, an enqueue lands between the dequeuer's NULL read and the dummy append: the new node is skipped"),
 "C14-j": ("start_poll_synchronize_rcu(): grace_period_id read before taking the poll mutex", "caller preempted between the load and the lock while an earlier polled grace period completes; a reader that entered after that grace period's scan"),
 "C17-j": ("wfcq non-blocking dequeue: WOULDBLOCK path restores head->node.next only if tail->p == node (never true there)", "exactly one node, enqueuer suspended between tail xchg and link, a non-blocking dequeue in that window, enqueuer resumes: every later non-blocking call returns WOULDBLOCK with nothing in progress"),
 "C18-j": ("cds_list_replace_rcu() ends with CDS_INIT_LIST_HEAD(old)", "a reader standing on the replaced node when it is replaced loops on it forever"),
 "C19-j": ("urcu-bp: the TLS reader pointer is cleared by urcu_bp_unregister() after the signal mask is restored instead of by remove_thread()", "bp thread exiting, a signal delivered at the unblock whose handler uses the read side: it uses the freed, unlinked registry slot"),
 "C20-j": ("uatomic_sub_return_mo(): operand negated in its own C type before widening", "8-byte target with an operand typed exactly unsigned int: result and memory off by 2^32"),
}
rows = []
for d in sorted(glob.glob(os.path.join(V, "seeded", "C??-?"))):
    name = os.path.basename(d)
    ver = open(os.path.join(d, "verify.txt")).read().strip() if os.path.exists(os.path.join(d, "verify.txt")) else ""
    runs = [l.strip() for l in open(os.path.join(d, "runs.txt"))] if os.path.exists(os.path.join(d, "runs.txt")) else []
    det = []
    for l in runs:
        m = re.search(r"check=(\S+) tier=(\S+) detected=(\S+)", l)
        if m:
            det.append({"check": m.group(1), "tier": m.group(2), "detected": m.group(3) == "yes", "first_report": l.split("::", 1)[1].strip()[:300]})
    what, needs = INFO.get(name, ("", ""))
    meta = {"name": name, "breaks_property": name.split("-")[0], "change": what, "needs_to_manifest": needs,
            "confirmation": {"how": "tools/seedverify.sh in the author's scratch worktree: git apply, make, make -k check, demo/run.sh with and without the patch", "result": ver},
            "checks_run": det, "caught_by": sorted({"%s/%s" % (x["check"], x["tier"]) for x in det if x["detected"]})}
    sup = os.path.join(d, "SUPERSEDED.txt")
    if os.path.exists(sup):
        meta["superseded"] = open(sup).read().strip()
    if det:
        meta["last_run"] = {"check": det[-1]["check"], "detected": det[-1]["detected"]}
    json.dump(meta, open(os.path.join(d, "meta.json"), "w"), indent=1)
    rows.append(meta)
with open(os.path.join(V, "seeded", "SUMMARY.md"), "w") as f:
    f.write("# Seeded changes and the checks that catch them\n\nGenerated by tools/seedsummary.py from seeded/*/runs.txt. Each change was written by a sub-agent that saw only the property text; "
            "`confirmed` = applies, `make -k check` passes with it, its demo fails with it and passes without.\n\n| change | breaks | what it is | needs | confirmed | caught by |\n|---|---|---|---|---|---|\n")
    for m in rows:
        r = m["confirmation"]["result"]
        mm = re.findall(r"demo_with_patch_exit=(\d+) demo_without_patch_exit=(\d+)", r)
        ok = any(int(a) != 0 and int(b) == 0 for a, b in mm) and "FAIL:  0" in r
        caught = ", ".join(m["caught_by"]) or "**not caught yet**"
        if "superseded" in m:
            caught += " (superseded: no longer breaks the property on the current tree, see SUPERSEDED.txt)"
        f.write("| %s | %s | %s | %s | %s | %s |\n" % (m["name"], m["breaks_property"], m["change"], m["needs_to_manifest"], "yes" if ok else "NO", caught))
    live = [m for m in rows if "superseded" not in m]
    n = sum(1 for m in live if m["caught_by"])
    f.write("\n%d of %d caught (%d more are superseded by a later repair of /repo and not counted).\n" % (n, len(live), len(rows) - len(live)))
print("seeded: %d live changes, %d caught, %d superseded" % (len(live), n, len(rows) - len(live)))
