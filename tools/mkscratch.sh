#!/bin/bash
# usage: mkscratch.sh <dir>   -- scratch git worktree of /repo HEAD with the (untracked) autotools files, configured and built
# remove with: git -C /repo worktree remove --force <dir>
set -e
D=$1
[ -n "$D" ] || { echo "usage: $0 <dir>"; exit 2; }
git -C /repo worktree add --detach -f "$D" HEAD >/dev/null
# autotools-generated files are not tracked: copy them (no objects, no libs)
cd /repo
git ls-files -o -i --exclude-standard --directory | grep -E '(^|/)(configure|Makefile\.in|aclocal\.m4|config\.h\.in)$|^config/|^m4/' | while read -r f; do
  mkdir -p "$D/$(dirname "$f")"; cp -a "$f" "$D/$f"
done
cd "$D"
./configure -q >/dev/null 2>&1
make -j16 >/dev/null 2>&1
echo "scratch ready: $D"
