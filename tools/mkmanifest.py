#!/usr/bin/env python3
"""Regenerates /verif/MANIFEST.json from the table below (keeps it schema-valid at all times)."""
import json, os, subprocess
VERIF = os.path.dirname(os.path.dirname(os.path.abspath(__file__)))
ALL = ["C%02d" % i for i in range(1, 21)]

E1_NOTE = ("Trusted base: the dsched engine (engine/rt.c: scheduler, x86-TSO store-buffer model, shadow heap, wrappers), gcc's "
           "-fsanitize=thread instrumentation pass (used only to intercept accesses; no libtsan), Hypothesis. The library is compiled from /repo's "
           "working tree with -DURCU_VERIF -DCONFIG_RCU_USE_ATOMIC_BUILTINS (a supported configuration) so every atomic and barrier is visible; "
           "bounded threads/operations/change points/held stores per case; not a proof of absence.")

CHECKS = {
    "C01": dict(engine="dsched", technique="property-based testing: Hypothesis-generated reader/updater programs + schedules + TSO store delays on a controlled-concurrency engine; grace-period interval, value-litmus and use-after-reclaim oracles",
                text="Generated-schedule exploration of the real synchronize_rcu()/read-side code of all four flavors (membarrier on/off) against interval, litmus and shadow-heap oracles; tens of thousands of distinct cases per run, shrunk replay on failure. Exploration is the right level: the property quantifies over interleavings and store-buffer delays, which the engine samples but cannot exhaust.",
                ref="DESIGN.md §6 C01"),
    "C02": dict(engine="dsched", technique="property-based testing: generated programs + schedules + injected futex faults (spurious return, EINTR, ENOSYS) on a controlled-concurrency engine; deadlock / no-progress / 10x-step-budget termination oracle",
                text="Every generated finite scenario must run to completion under the engine's fair scheduler; a thread left blocked in FUTEX_WAIT/mutex with nothing runnable, or no memory write for 6000 steps, or a step-budget overrun that persists at 10x, is a violation. Liveness can only be sampled on finite programs, hence exploration.",
                ref="DESIGN.md §6 C02"),
    "C15": dict(engine="dsched", technique="property-based testing: generated register/unregister and thread-wave programs (bp registry capacity 2 via hook, mremap fault injection, signals during bp registration) with the C01/C02 oracles plus bp slot-stability and slot-reuse oracles",
                text="Generated (un)registration and thread create/exit waves interleaved with both scan phases of synchronize_rcu(); grace-period, termination, slot-address-stability and slot-reuse oracles. Exploration over schedules.",
                ref="DESIGN.md §6 C15"),
    "C19": dict(engine="dsched", technique="property-based testing: real signals injected at generated scheduling points (incl. inside read_lock/read_unlock/synchronize_rcu and interrupted FUTEX_WAIT) of generated programs; read-side-state restoration oracle plus C01 oracles on handler sections",
                text="Signals raised on the interrupted thread before any of its memory accesses, nested up to 3; the handler's lock/reads/unlock must restore nesting and (inside a section) the whole reader word, and handler and interrupted sections keep the grace-period guarantee. Exploration over interruption points and schedules.",
                ref="DESIGN.md §6 C19"),
    "C03": dict(engine="dsched", technique="property-based testing: generated call_rcu/reader/helper-management programs + schedules + futex faults on a controlled-concurrency engine; exactly-once counters, rcu_head identity, grace-period interval oracle, shadow heap, passive-drain termination oracle",
                text="Generated programs over default, per-thread and per-CPU helpers (RT and futex-woken), chained callbacks and helper destruction with queued callbacks; every callback must run exactly once, after all sections open at its call_rcu(), and eventually without further API calls. Exploration over schedules and helper layouts.",
                ref="DESIGN.md §6 C03"),
    "C04": dict(engine="dsched", technique="property-based testing: generated programs weighted to concurrent rcu_barrier() callers, several helpers and helper creation/destruction, futex faults; set-inclusion oracle (callbacks whose call_rcu returned before barrier entry have finished at barrier return) and termination oracle",
                text="The barrier oracle compares the set of callbacks queued before each rcu_barrier() call with the set finished at its return, on the real helper threads under generated schedules; termination by deadlock/no-progress/10x budget. Exploration.",
                ref="DESIGN.md §6 C04"),
    "C14": dict(engine="dsched", technique="property-based testing: generated start_poll/poll/poll-until-true programs with readers and the call_rcu helper under generated schedules; interval oracle at the first true result, stability and eventual-completion oracles",
                text="Handles taken at generated points of in-flight grace periods; first true result checked against sections open at start_poll; true is stable; poll loops terminate. Exploration.",
                ref="DESIGN.md §6 C14"),
    "C05": dict(engine="dsched", technique="property-based testing: Hypothesis-generated concurrent hash-table programs + schedules + TSO delays on a controlled-concurrency engine; Wing-Gong linearizability check against a multiset-per-key reference model, interval predicates for traversals, shadow heap",
                text="Call/return histories of the real cds_lfht code (all allocators, flavors, colliding and non-colliding hashes, concurrent grow/shrink) are searched for a linearization against the reference specification; traversals are checked by definitely/possibly-present interval predicates. Exploration over schedules.",
                ref="DESIGN.md §6 C05"),
    "C06": dict(engine="dsched", technique="property-based testing: generated add_unique/add_replace/replace/del races on one key with concurrent walks, traversals and resizes; linearizability check against the unique-key specification, exactly-one-owner and interval oracles",
                text="Same engine and checker as C05 with generators confined to unique-insertion keys; the specification makes add_unique return its own node iff the key is absent and hands each replaced node to one caller. Exploration.",
                ref="DESIGN.md §6 C06"),
    "C07": dict(engine="dsched", technique="property-based testing: generated competing del/replace/add_replace on the same node with immediate reclamation after a grace period, shrinks and destroy; ownership table + linearizability spec + shadow heap (use-after-reclaim) oracle",
                text="Removal races on one node under generated schedules; the winner frees the node after synchronize_rcu/call_rcu while other threads keep running, so any later access by library code is caught by the shadow heap; bucket levels and the table itself likewise. Exploration. One known finding (qsbr explicit resize) is probed and excluded by construction.",
                ref="DESIGN.md §6 C07, §10"),
    "C08": dict(engine="libfuzzer", technique="coverage-guided fuzzing (libFuzzer, ASan+UBSan): bytes decoded structurally into table configuration + operation sequence, differential check against a C++ reference multimap after every step",
                text="Model-based fuzz target over all creation parameters, flags, allocators (incl. custom cds_lfht_alloc) and adversarial hashes; every result is compared with the reference multimap, full scan / count_nodes / destroy checked. Exploration over inputs (10^5-10^7 executions per run).",
                ref="DESIGN.md §5, §6 C08",
                note="Trusted base: the C++ reference model and decoder in fuzz/lfht_fuzz.cc, libFuzzer, ASan/UBSan (alignment check disabled, see DESIGN.md). Single application thread; AUTO_RESIZE worker synchronised through a white-box read of resize_initiated."),
    "C09": dict(engine="libfuzzer+dsched", technique="coverage-guided fuzzing with a reference model, a hang watchdog and a recording bucket allocator (inputs: all resize targets, allocators, bounds) plus property-based schedule exploration of resizes concurrent with operations (linearizability, shadow heap, termination oracles)",
                text="E2: every requested size incl. 0, non powers of two, > max and ULONG_MAX must return and preserve contents, bucket count within [1,max], order arguments validated by a recording allocator. E1: explicit and lazy (chain-length, counter-driven, partitioned) resizes concurrent with updates/lookups/destroy. Exploration over inputs and schedules.",
                ref="DESIGN.md §6 C09"),
    "C10": dict(engine="dsched", technique="property-based testing: Hypothesis-generated concurrent wfcqueue/wfqueue programs (all dequeue/splice/iteration variants, locked and single-consumer schemes) + schedules + TSO delays on a controlled-concurrency engine; Wing-Gong linearizability check against a sequential FIFO reference model (two-step splice), WOULDBLOCK-only-while-in-flight rule, payload and shadow-heap oracles",
                text="Complete call/return histories of the real cds_wfcq / cds_wfq code (including the final drain) are searched for a linearization against the FIFO specification with every documented result; change points land between an enqueuer's tail exchange and its link store. Exploration over schedules.",
                ref="DESIGN.md §6 C10"),
    "C11": dict(engine="dsched", technique="property-based testing: generated concurrent wfstack/lfstack/rculfstack programs (all pop/pop_all/iteration variants; lock, single-consumer and RCU schemes with node recycling after a grace period) + schedules + TSO delays; Wing-Gong linearizability check against a sequential LIFO reference model, WOULDBLOCK rule, payload and shadow-heap oracles",
                text="Histories of the real stack code under the three documented synchronisation schemes are checked for linearizability against the LIFO specification (push/pop results, STATE_LAST, empty(), pop_all contents); recycled nodes exercise ABA. Exploration over schedules.",
                ref="DESIGN.md §6 C11"),
    "C12": dict(engine="dsched", technique="property-based testing: generated concurrent cds_lfq enqueue/dequeue programs inside read-side sections of every flavor with node recycling through grace periods + schedules + TSO delays; Wing-Gong linearizability check against a sequential FIFO reference model incl. destroy, live-user-node and shadow-heap oracles",
                text="Histories of the real rculfqueue code (three CAS sites, dummy-node swap, the flavor's call_rcu) are checked for linearizability against the FIFO specification; returned pointers must be live user nodes, dummies are reclaimed only after a grace period, destroy succeeds iff empty. Exploration over schedules.",
                ref="DESIGN.md §6 C12"),
    "C18": dict(engine="dsched", technique="property-based testing: Hypothesis-generated update sequences on cds_list/cds_hlist (mutually excluded updaters) concurrent with _rcu-iterator traversals in read-side sections, schedules that preempt between the individual plain pointer stores of each primitive; interval oracle from the update log (resident nodes visited once, in list order, nothing impossible, replacement atomic), payload-initialisation and shadow-heap oracles",
                text="The static-inline list primitives are instrumented in the scenario so every plain pointer store is a scheduling point; each traversal is judged against the updater's logged call/return steps. Exploration over update sequences and schedules.",
                ref="DESIGN.md §6 C18"),
    "C13": dict(engine="dsched", technique="property-based testing: Hypothesis-generated defer_rcu programs (function/argument bit patterns incl. marker, low-bit and odd-address values; queue size 8 via hook so the ring wraps and flushes; barriers, background reclaimer, re-registration, readers) + schedules + futex faults on a controlled-concurrency engine; per-thread FIFO/exact-argument oracle, grace-period oracle, barrier-completeness and termination oracles",
                text="Every invocation is matched against the next queued (function, argument) pair of its thread; sections open at defer_rcu() must have ended; barrier/unregister completeness; reclaimer-only progress; re-registration. Exploration over inputs (bit patterns, sequence lengths relative to the ring) and schedules.",
                ref="DESIGN.md §6 C13, §10"),
    "C17": dict(engine="dsched", technique="property-based testing with a controlled scheduler: Hypothesis-generated concurrent programs on queues/stacks, the hash table and read-side primitives; at a generated step every other thread is suspended wherever it is and one thread runs documented wait-free/lock-free/non-blocking operations solo; oracle: returns, no wait hint reached, own-step bound, WOULDBLOCK only with an operation in flight",
                text="The schedule (including the suspension point of every other thread) is part of the generated case, so 'finishes wherever other threads are suspended' is observed directly: the solo operation must return without ever calling caa_cpu_relax/poll/futex-wait/contended mutex and within a step bound. Exploration over suspension points.",
                ref="DESIGN.md §6 C17"),
    "C20": dict(engine="libfuzzer+native", technique="coverage-guided fuzzing (libFuzzer) plus exhaustive boundary-grid enumeration with a differential oracle (plain-C reference vs eight builds of the real uatomic macros: x86 asm / compiler builtins, C / C++, clang / gcc); Hypothesis-generated multi-threaded hammer cases on real hardware with conservation oracles; store-buffer litmus with a mandatory positive control",
                text="Sequential semantics: returned value, stored value truncated to the width and untouched neighbours for every type, operation, aligned position and boundary operand (2.3 million grid cases enumerated completely plus millions of fuzzed ones). Concurrency: generated packings of mixed-width operands in one word hammered by 2-8 pinned threads; lost updates, duplicated add_return results, lost tokens, clobbered neighbours are conservation violations. Barriers: forbidden litmus outcome must never appear while the control shows it. Exploration.",
                ref="DESIGN.md §6 C20",
                note="Trusted base: the plain-C reference in fuzz/uat_fuzz.cc, libFuzzer, Hypothesis, this machine's x86-64 cores for the concurrent part (atomicity and barriers are observed on the executions that happened, not proven), the harness's own __atomic-builtin start barrier."),
    "C16": dict(engine="dsched", technique="property-based testing: Hypothesis-generated forking-thread programs, helper layouts, bp reader threads and child step sets, with schedules that place every other thread anywhere when the fork handlers run; the forked child is a real process driven by the same controlled-concurrency engine; oracles: child completes all steps (deadlock/no-progress/10x-budget rules), per-process exactly-once callback counters, hash-table contents, parent completion",
                text="fork() is executed for real under the engine; the child inherits the scheduler state with only the forking thread alive, so locks or queue states inherited from non-existent threads show up as child deadlocks, lost or duplicated callbacks. Exploration over schedules and configurations.",
                ref="DESIGN.md §6 C16, §10"),
}
NOT_YET = "check not built yet in this session (planned: see DESIGN.md §6)"


def main():
    hooks_commits = subprocess.run(["git", "-C", "/repo", "log", "--format=%H", "--grep=^verif hooks"], capture_output=True, text=True).stdout.split()
    m = {
        "version": 1,
        "setup_cmd": "python3 engine/build.py >/dev/null && python3 fuzz/fzbuild.py lfht_fuzz >/dev/null && python3 fuzz/fzbuild.py uat_fuzz >/dev/null && python3 native/nbuild.py >/dev/null && python3-vt -c 'import hypothesis'",
        "hooks": {
            "guard": "URCU_VERIF",
            "enable": "checks compile /repo/src and /repo/include themselves (engine/build.py, fuzz/fzbuild.py, native/nbuild.py; hash-keyed on the working tree, so an edited tree is always rebuilt) with -DURCU_VERIF plus -DURCU_VERIF_<CONSTANT>=<value> overrides (E1: RCU_QS_ACTIVE_ATTEMPTS=2, URCU_WAIT_ATTEMPTS=2, MIN_PARTITION_PER_THREAD_ORDER=1, COUNT_COMMIT_ORDER=1, DEFER_QUEUE_SIZE=8, INIT_READER_COUNT=1; E2 lfht: MIN_PARTITION_PER_THREAD_ORDER=5, COUNT_COMMIT_ORDER=2; the C20 builds use no hook); the autotools build in /repo is never used by the checks",
            "baseline_off_cmd": "make -C /repo -k check",
            "source_commits": hooks_commits,
            "add_only": True,
        },
        "engines": [
            {"name": "libfuzzer", "path": "fuzz/", "serves_properties": sorted(k for k, v in CHECKS.items() if "libfuzzer" in v["engine"]),
             "kind_free_text": "libFuzzer model-based targets (clang -fsanitize=fuzzer,address,undefined), structural decoding of bytes into configuration + operation sequence, reference model compared after every step"},
            {"name": "native", "path": "native/", "serves_properties": ["C20"], "kind_free_text": "native multi-threaded harness on real hardware (gcc -O2, x86 asm and builtins configurations, C and C++), cases generated by Hypothesis; store-buffer litmus"},
            {"name": "dsched", "path": "engine/", "serves_properties": sorted(k for k, v in CHECKS.items() if "dsched" in v["engine"]),
             "kind_free_text": "deterministic controlled-concurrency engine: real library sources instrumented with gcc -fsanitize=thread (instrumentation only), baton scheduler, x86-TSO store buffers, fault/signal injection, shadow heap; cases generated and shrunk by Hypothesis"},
        ],
        "checks": [],
        "not_applicable": [],
        "notes": "All checks: ./check <id> [--tier quick|thorough] [--replay file]; VERIF_SEED and VERIF_TIER honoured. Known findings: known_findings.json.",
    }
    for pid in ALL:
        if pid in CHECKS:
            c = CHECKS[pid]
            m["checks"].append({
                "property_id": pid,
                "quick_cmd": "./check %s --tier quick" % pid,
                "thorough_cmd": "./check %s --tier thorough" % pid,
                "evidence_file": "evidence/%s.json" % pid,
                "replay_cmd_template": "./check %s --replay {path}" % pid,
                "engine": c["engine"],
                "level_claimed": {"category": "exploration", "text": c["text"], "design_ref": c["ref"]},
                "level_note": c.get("note", E1_NOTE),
                "technique": c["technique"],
            })
        else:
            m["not_applicable"].append({"property_id": pid, "reason": NOT_YET})
    json.dump(m, open(os.path.join(VERIF, "MANIFEST.json"), "w"), indent=1)
    print("MANIFEST.json: %d checks, %d not claimed" % (len(m["checks"]), len(m["not_applicable"])))


if __name__ == "__main__":
    main()
