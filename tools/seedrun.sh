#!/bin/bash
# usage: tools/seedrun.sh <seeded dir name> <property id> [tier]   -- run a check against the seeded change in a scratch worktree; append the outcome to seeded/<dir>/runs.txt
N=$1; ID=$2; TIER=${3:-quick}
OUT=$(timeout 3000 /verif/tools/muttest.sh /verif/seeded/$N/patch.diff $ID $TIER 2>&1 | tail -4)
RC=$(echo "$OUT" | grep -c "^VIOLATION")
echo "$(date -u +%FT%TZ) check=$ID tier=$TIER detected=$([ $RC -gt 0 ] && echo yes || echo no) :: $(echo "$OUT" | tr '\n' ' ' | cut -c1-600)" >> /verif/seeded/$N/runs.txt
tail -1 /verif/seeded/$N/runs.txt | cut -c1-400
