#!/usr/bin/env python3
"""Build the E3 native harness (C20) from /repo's current include tree, four ways: {x86 asm, compiler builtins} x {C, C++}. Hash-keyed like the other builds."""
import hashlib, os, subprocess, sys, glob, shutil
VERIF = os.path.dirname(os.path.dirname(os.path.abspath(__file__)))
REPO = os.environ.get("VERIF_REPO", "/repo")
NAT = os.path.join(VERIF, "native"); CFG = os.path.join(VERIF, "engine", "cfg"); BUILD = os.path.join(VERIF, "build")
VARIANTS = [("asm_c", ["gcc", "-x", "c"], []), ("bi_c", ["gcc", "-x", "c"], ["-DCONFIG_RCU_USE_ATOMIC_BUILTINS"]),
            ("asm_cxx", ["g++", "-x", "c++"], []), ("bi_cxx", ["g++", "-x", "c++"], ["-DCONFIG_RCU_USE_ATOMIC_BUILTINS"])]


def input_hash():
    h = hashlib.sha256()
    files = glob.glob(os.path.join(NAT, "*.c")) + glob.glob(os.path.join(NAT, "*.py"))
    for dp, dn, fn in os.walk(os.path.join(REPO, "include")):
        files += [os.path.join(dp, f) for f in fn if f.endswith(".h")]
    for f in sorted(files):
        h.update(f.encode()); h.update(open(f, "rb").read())
    return h.hexdigest()[:16]


def build():
    out = os.path.join(BUILD, "e3-" + input_hash())
    if os.path.exists(os.path.join(out, "ok")):
        return {v[0]: os.path.join(out, "uat_conc_" + v[0]) for v in VARIANTS}
    tmp = out + ".tmp%d" % os.getpid()
    shutil.rmtree(tmp, ignore_errors=True); os.makedirs(tmp)
    for name, cc, fl in VARIANTS:
        cmd = cc + ["-O2", "-g", "-pthread", "-w", "-I" + CFG, "-I" + os.path.join(REPO, "include")] + fl + [os.path.join(NAT, "uat_conc.c"), "-o", os.path.join(tmp, "uat_conc_" + name)]
        r = subprocess.run(cmd, capture_output=True, text=True)
        if r.returncode:
            sys.stderr.write("BUILD FAILED: %s\n%s\n" % (" ".join(cmd), (r.stdout + r.stderr)[-3000:])); shutil.rmtree(tmp, ignore_errors=True); raise SystemExit(3)
    open(os.path.join(tmp, "ok"), "w").close()
    try:
        os.rename(tmp, out)
    except OSError:
        shutil.rmtree(tmp, ignore_errors=True)
    for d in sorted(glob.glob(os.path.join(BUILD, "e3-*")), key=os.path.getmtime)[:-3]:
        if d != out and ".tmp" not in d:
            shutil.rmtree(d, ignore_errors=True)
    return {v[0]: os.path.join(out, "uat_conc_" + v[0]) for v in VARIANTS}


if __name__ == "__main__":
    print(build())
