/*
 * C20 (concurrent part, engine E3): real threads on the real machine hammering uatomic read-modify-write operations on several
 * locations of different widths packed into ONE 8-byte word (so a wrong-width or non-atomic access to one corrupts its neighbours),
 * plus the store-buffer litmus for the operations documented as full barriers.
 *
 *   uat_conc run <nthreads> <iters> <seed> <type:off:mode> ...      exit 0 ok, 1 violation (message on stdout), 2 bad usage
 *   uat_conc litmus <kind> <rounds>                                  kind: none | xchg | cmpxchg | add_return | sub_return
 *        prints "litmus kind=<k> rounds=<n> both_zero=<c>"; exit 0 always (the driver judges)
 *
 * modes: 0 sum conservation over add/sub/inc/dec/add_return/sub_return, 1 add_return(+1) results all distinct, 2 xchg token conservation,
 *        3 cmpxchg-loop increments, 4 and/or bit ownership, 5 test-and-set lock built from uatomic_cmpxchg(&w, 0, id) / uatomic_set(&w, 0)
 *        protecting a plain counter (a cmpxchg that reports success without having stored breaks mutual exclusion).
 * The barrier used to start threads and the bookkeeping use compiler __atomic builtins directly, never the macros under test.
 */
#define _GNU_SOURCE
#include <pthread.h>
#include <sched.h>
#include <stdint.h>
#include <stdio.h>
#include <stdlib.h>
#include <string.h>
#include <unistd.h>
#include <urcu/uatomic.h>
#include <urcu/system.h>
#include <urcu/arch.h>

#define MAXLOC 8
#define MAXTH 16
enum { T_S8, T_U8, T_S16, T_U16, T_S32, T_U32, T_S64, T_U64 };
static const int widths[] = { 1, 1, 2, 2, 4, 4, 8, 8 };

struct loc { int type, off, mode, w; uint64_t init; };
static struct loc locs[MAXLOC]; static int nloc;
static int nthreads; static long iters; static unsigned long seed;

static struct { uint64_t guard_lo[8]; uint64_t word; uint64_t guard_hi[8]; } __attribute__((aligned(128))) mem;
static int start_flag, ready, ncpu;
#include <time.h>
static double now_ms(void) { struct timespec t; clock_gettime(CLOCK_MONOTONIC, &t); return t.tv_sec * 1e3 + t.tv_nsec / 1e6; }

struct tstate {
	int id;
	uint64_t delta[MAXLOC];		/* mode 0: net delta applied */
	uint64_t held[MAXLOC], put1[MAXLOC], put2[MAXLOC];	/* mode 2: token currently held; the two previous tokens put */
	double t_start, t_end;
	uint64_t *rets[MAXLOC]; long nrets[MAXLOC];	/* mode 1 */
	unsigned long cas_fail, foreign_tokens;
	char err[256];
};
static struct tstate ts[MAXTH];
static volatile long protected_ctr[MAXLOC]; static volatile int inside[MAXLOC]; static long acquisitions[MAXTH][MAXLOC];

static uint64_t maskw(int w) { return w == 8 ? ~0ull : (1ull << (8 * w)) - 1; }
static inline uint64_t lcg(uint64_t *s) { *s = *s * 6364136223846793005ull + 1442695040888963407ull; return *s >> 33; }

#define ADDR(T, l) ((T *)((char *)&mem.word + (l)->off))
/* one operation of mode m on location l, dispatched on the operand type so that the real macros see the real type */
#define DISPATCH(l, BODY) switch ((l)->type) { \
	case T_S8: { typedef signed char T; BODY } break; case T_U8: { typedef unsigned char T; BODY } break; \
	case T_S16: { typedef short T; BODY } break; case T_U16: { typedef unsigned short T; BODY } break; \
	case T_S32: { typedef int T; BODY } break; case T_U32: { typedef unsigned int T; BODY } break; \
	case T_S64: { typedef long T; BODY } break; case T_U64: { typedef unsigned long T; BODY } break; }

static void *worker(void *arg)
{
	struct tstate *me = (struct tstate *)arg;
	uint64_t rng = seed * 0x9E3779B97F4A7C15ull + me->id * 977 + 1;
	{ cpu_set_t cs; CPU_ZERO(&cs); CPU_SET((me->id * 2 + me->id / 8) % (ncpu > 0 ? ncpu : 1), &cs); (void) pthread_setaffinity_np(pthread_self(), sizeof cs, &cs); }
	__atomic_add_fetch(&ready, 1, __ATOMIC_ACQ_REL);
	while (!__atomic_load_n(&start_flag, __ATOMIC_ACQUIRE)) caa_cpu_relax();
	me->t_start = now_ms();
	for (long i = 0; i < iters && !me->err[0]; i++) {
		for (int k = 0; k < nloc; k++) {
			struct loc *l = &locs[k];
			uint64_t r = lcg(&rng);
			static const uint64_t vals[] = { 1, 2, 3, 0x7f, 0x80, 0xff, 0x100, 0x7fff, 0x8000, 0xffff, 0x10001, 0x7fffffff, 0x80000000u, 0xffffffffu, 0x100000001ull, ~0ull };
			uint64_t v = vals[(r >> 3) % 16] & maskw(l->w);
			switch (l->mode) {
			case 0: case 6: case 7: case 8: case 9: case 10: case 11:	/* 6..11: one of the six update operations only */
				DISPATCH(l, {
					T *p = ADDR(T, l);
					switch (l->mode ? (uint64_t)(l->mode - 6) : r % 6) {
					case 0: uatomic_add(p, (T)v); me->delta[k] += v; break;
					case 1: uatomic_sub(p, (T)v); me->delta[k] -= v; break;
					case 2: uatomic_inc(p); me->delta[k] += 1; break;
					case 3: uatomic_dec(p); me->delta[k] -= 1; break;
					case 4: (void) uatomic_add_return(p, (T)v); me->delta[k] += v; break;
					default: (void) uatomic_sub_return(p, (T)v); me->delta[k] -= v; break;
					}
				})
				break;
			case 1:
				DISPATCH(l, { T *p = ADDR(T, l); T got = uatomic_add_return(p, 1); if (me->nrets[k] < iters) me->rets[k][me->nrets[k]++] = (uint64_t)got & maskw(l->w); })
				break;
			case 2:
				DISPATCH(l, {
					T *p = ADDR(T, l); uint64_t got = (uint64_t)uatomic_xchg(p, (T)me->held[k]) & maskw(l->w);
					if (got > (uint64_t)nthreads) { snprintf(me->err, sizeof me->err, "location %d: uatomic_xchg returned 0x%llx, which is not one of the tokens 0..%d ever stored", k, (unsigned long long)got, nthreads); break; }
					if (i >= 2 && got != me->put2[k]) me->foreign_tokens++;	/* alone, a thread always gets back what it put two steps earlier */
					me->put2[k] = me->put1[k]; me->put1[k] = me->held[k];
					me->held[k] = got;
				})
				break;
			case 3:
				DISPATCH(l, {
					T *p = ADDR(T, l); T old;
					for (;;) { old = uatomic_read(p); if (uatomic_cmpxchg(p, old, (T)(old + 1)) == old) break; me->cas_fail++; }
				})
				break;
			case 5:
				DISPATCH(l, {
					T *p = ADDR(T, l); T id = (T)(me->id + 1);
					if ((i & 7) == 0) {	/* every 8th iteration: keeps contention on the other operands of the word high as well */
						while (uatomic_cmpxchg(p, (T)0, id) != (T)0) caa_cpu_relax();
						if (uatomic_read(p) != id) { snprintf(me->err, sizeof me->err, "location %d: uatomic_cmpxchg(&w, 0, %d) reported success but the word holds %ld", k, (int)id, (long)uatomic_read(p)); break; }
						if (__atomic_fetch_add(&inside[k], 1, __ATOMIC_ACQ_REL) != 0) { snprintf(me->err, sizeof me->err, "location %d: two threads are inside the critical section protected by a uatomic_cmpxchg test-and-set lock", k); break; }
						protected_ctr[k] = protected_ctr[k] + 1;
						acquisitions[me->id][k]++;
						__atomic_fetch_sub(&inside[k], 1, __ATOMIC_ACQ_REL);
						uatomic_set(p, (T)0);
					}
				})
				break;
			case 4:
				DISPATCH(l, {
					T *p = ADDR(T, l); T bit = (T)((T)1 << (me->id % (8 * l->w)));
					uatomic_or(p, bit);
					if (!(uatomic_read(p) & bit)) { snprintf(me->err, sizeof me->err, "location %d: bit %d set with uatomic_or by its only owner reads back clear", k, me->id % (8 * l->w)); break; }
					uatomic_and(p, (T)~bit);
					if (uatomic_read(p) & bit) { snprintf(me->err, sizeof me->err, "location %d: bit %d cleared with uatomic_and by its only owner reads back set", k, me->id % (8 * l->w)); break; }
				})
				break;
			}
		}
	}
	me->t_end = now_ms();
	return NULL;
}

static uint64_t load_loc(struct loc *l) { uint64_t v = 0; memcpy(&v, (char *)&mem.word + l->off, l->w); return v; }

static int cmp_u64(const void *a, const void *b) { uint64_t x = *(const uint64_t *)a, y = *(const uint64_t *)b; return x < y ? -1 : x > y; }

static int do_run(int argc, char **argv)
{
	if (argc < 6) return 2;
	nthreads = atoi(argv[2]); iters = atol(argv[3]); seed = strtoul(argv[4], NULL, 0);
	if (nthreads < 1 || nthreads > MAXTH) return 2;
	uint64_t used = 0;
	for (int i = 5; i < argc && nloc < MAXLOC; i++) {
		struct loc *l = &locs[nloc];
		if (sscanf(argv[i], "%d:%d:%d", &l->type, &l->off, &l->mode) != 3 || l->type < 0 || l->type > 7) return 2;
		l->w = widths[l->type];
		if (l->off % l->w || l->off + l->w > 8) return 2;
		for (int b = l->off; b < l->off + l->w; b++) { if (used >> b & 1) return 2; used |= 1ull << b; }
		nloc++;
	}
	for (int i = 0; i < 8; i++) { mem.guard_lo[i] = 0x5a5a5a5a5a5a5a5aull + i; mem.guard_hi[i] = 0xa5a5a5a5a5a5a5a5ull - i; }
	uint64_t rng = seed + 12345;
	mem.word = 0xc3c3c3c3c3c3c3c3ull;	/* bytes not covered by any location must stay like this */
	for (int k = 0; k < nloc; k++) {
		struct loc *l = &locs[k];
		l->init = (l->mode == 2 || l->mode == 4 || l->mode == 5) ? 0 : lcg(&rng) * 0x10001 & maskw(l->w);
		if (l->mode == 4) l->init = 0;
		memcpy((char *)&mem.word + l->off, &l->init, l->w);
		if (l->mode == 1 && l->w == 1 && (long)nthreads * iters > 255) { /* all results must be distinct: shorten */ }
	}
	long it1 = iters;
	for (int k = 0; k < nloc; k++) if (locs[k].mode == 1 && locs[k].w < 8) { uint64_t cap = maskw(locs[k].w) / nthreads; if ((uint64_t)it1 > cap) it1 = (long)cap; }
	iters = it1 > 0 ? it1 : 1;
	pthread_t th[MAXTH];
	ncpu = (int)sysconf(_SC_NPROCESSORS_ONLN);
	for (int t = 0; t < nthreads; t++) {
		ts[t].id = t;
		for (int k = 0; k < nloc; k++) { ts[t].held[k] = t + 1; if (locs[k].mode == 1) ts[t].rets[k] = (uint64_t *)calloc(iters, sizeof(uint64_t)); }
		pthread_create(&th[t], NULL, worker, &ts[t]);
	}
	while (__atomic_load_n(&ready, __ATOMIC_ACQUIRE) < nthreads) sched_yield();
	__atomic_store_n(&start_flag, 1, __ATOMIC_RELEASE);
	for (int t = 0; t < nthreads; t++) pthread_join(th[t], NULL);
	int bad = 0; unsigned long casf = 0, foreign = 0, interleaved = 0;
	for (int t = 0; t < nthreads; t++) { if (ts[t].err[0]) { printf("VIOLATION thread %d: %s\n", t, ts[t].err); bad = 1; } casf += ts[t].cas_fail; foreign += ts[t].foreign_tokens; }
	for (int i = 0; i < 8; i++) if (mem.guard_lo[i] != 0x5a5a5a5a5a5a5a5aull + i || mem.guard_hi[i] != 0xa5a5a5a5a5a5a5a5ull - i) { printf("VIOLATION guard word %d next to the operand word was modified\n", i); bad = 1; }
	for (int b = 0; b < 8; b++) if (!(used >> b & 1) && ((unsigned char *)&mem.word)[b] != 0xc3) { printf("VIOLATION byte %d of the word, which belongs to no operand, changed from 0xc3 to 0x%02x\n", b, ((unsigned char *)&mem.word)[b]); bad = 1; }
	for (int k = 0; k < nloc; k++) {
		struct loc *l = &locs[k]; uint64_t fin = load_loc(l), m = maskw(l->w);
		if (l->mode == 0 || l->mode >= 6) {
			uint64_t d = 0; for (int t = 0; t < nthreads; t++) d += ts[t].delta[k];
			if (fin != ((l->init + d) & m)) { printf("VIOLATION location %d (type %d, byte %d): final value 0x%llx, initial 0x%llx plus the sum of all applied deltas gives 0x%llx: an update was lost or misapplied\n", k, l->type, l->off, (unsigned long long)fin, (unsigned long long)l->init, (unsigned long long)((l->init + d) & m)); bad = 1; }
		} else if (l->mode == 1) {
			long total = (long)nthreads * iters; uint64_t *all = (uint64_t *)malloc(sizeof(uint64_t) * total); long n = 0;
			for (int t = 0; t < nthreads; t++) { for (long i = 0; i < ts[t].nrets[k]; i++) { all[n++] = (ts[t].rets[k][i] - l->init) & m; if (i && ((ts[t].rets[k][i] - ts[t].rets[k][i - 1]) & m) != 1) interleaved++; } }
			qsort(all, n, sizeof(uint64_t), cmp_u64);
			for (long i = 0; i < n; i++) if (all[i] != (uint64_t)(i + 1)) { printf("VIOLATION location %d (type %d, byte %d): the %ld results of uatomic_add_return(+1) are not the %ld distinct successive values (sorted position %ld holds offset %llu): an update was lost or a result is wrong\n", k, l->type, l->off, n, n, i, (unsigned long long)all[i]); bad = 1; break; }
			if (fin != ((l->init + n) & m)) { printf("VIOLATION location %d: final value 0x%llx after %ld increments from 0x%llx\n", k, (unsigned long long)fin, n, (unsigned long long)l->init); bad = 1; }
			free(all);
		} else if (l->mode == 2) {
			uint64_t seen = 0; int okp = 1;
			if (fin > (uint64_t)nthreads) okp = 0; else seen |= 1ull << fin;
			for (int t = 0; t < nthreads && okp; t++) { if (ts[t].held[k] > (uint64_t)nthreads || (seen >> ts[t].held[k] & 1)) okp = 0; else seen |= 1ull << ts[t].held[k]; }
			if (!okp) { printf("VIOLATION location %d (type %d, byte %d): tokens are not conserved by uatomic_xchg: final location value %llu, held:", k, l->type, l->off, (unsigned long long)fin); for (int t = 0; t < nthreads; t++) printf(" %llu", (unsigned long long)ts[t].held[k]); printf("\n"); bad = 1; }
		} else if (l->mode == 3) {
			uint64_t want = (l->init + (uint64_t)nthreads * iters) & m;
			if (fin != want) { printf("VIOLATION location %d (type %d, byte %d): %d threads x %ld successful cmpxchg increments from 0x%llx give 0x%llx, expected 0x%llx\n", k, l->type, l->off, nthreads, iters, (unsigned long long)l->init, (unsigned long long)fin, (unsigned long long)want); bad = 1; }
		} else if (l->mode == 5) {
			long acq = 0; for (int t = 0; t < nthreads; t++) acq += acquisitions[t][k];
			if (fin != 0 || protected_ctr[k] != acq) { printf("VIOLATION location %d (type %d, byte %d): test-and-set lock built from uatomic_cmpxchg: %ld acquisitions but the protected counter is %ld (final lock word 0x%llx)\n", k, l->type, l->off, acq, (long)protected_ctr[k], (unsigned long long)fin); bad = 1; }
		} else if (l->mode == 4) {
			if (fin != 0) { printf("VIOLATION location %d (type %d, byte %d): every owner cleared its bit, final value 0x%llx\n", k, l->type, l->off, (unsigned long long)fin); bad = 1; }
		}
	}
	int overlapping = 0;
	for (int a = 0; a < nthreads; a++) for (int b = a + 1; b < nthreads; b++) if (ts[a].t_start < ts[b].t_end && ts[b].t_start < ts[a].t_end) overlapping++;
	printf("stats cas_fail=%lu foreign_tokens=%lu interleaved_results=%lu iters=%ld overlapping_pairs=%d\n", casf, foreign, interleaved, iters, overlapping);
	return bad;
}

/* ---- store-buffer litmus ---- */
static int X, Y; static long Z0, Z1; static int W0, W1; static int R0, R1;
static int lit_kind; static long lit_rounds;
static unsigned bar_count, bar_sense;
static void bar_wait(unsigned *local)
{
	*local ^= 1;
	if (__atomic_add_fetch(&bar_count, 1, __ATOMIC_ACQ_REL) == 2) { __atomic_store_n(&bar_count, 0, __ATOMIC_RELAXED); __atomic_store_n(&bar_sense, *local, __ATOMIC_RELEASE); }
	else while (__atomic_load_n(&bar_sense, __ATOMIC_ACQUIRE) != *local) ;
}
static inline void rmw(long *z, int *w)
{
	switch (lit_kind) {
	case 1: (void) uatomic_xchg(z, 1L); break;
	case 2: (void) uatomic_cmpxchg(z, uatomic_read(z), 5L); break;	/* single writer of z: always succeeds */
	case 3: (void) uatomic_add_return(z, 3L); break;
	case 4: (void) uatomic_sub_return(z, 3L); break;
	case 9: (void) uatomic_add_return(z, 0L); break;	/* the "read with a full barrier" idiom */
	case 10: (void) uatomic_sub_return(z, 0L); break;
	case 11: (void) uatomic_add_return(w, 0); break;
	case 12: { long cur = uatomic_read(z); (void) uatomic_cmpxchg(z, cur, cur); break; }	/* successful cmpxchg that stores the same value */
	case 13: (void) uatomic_xchg(z, uatomic_read(z)); break;	/* xchg of the value already there */
	case 5: (void) uatomic_xchg(w, 1); break;
	case 6: (void) uatomic_cmpxchg(w, uatomic_read(w), 5); break;
	case 7: (void) uatomic_add_return(w, 3); break;
	case 8: (void) uatomic_sub_return(w, 3); break;
	/* 20..: primitives whose ordering the library's wake-up / grace-period protocols rely on (not read-modify-write value semantics) */
	case 24: uatomic_or(z, 1L); cmm_smp_mb__after_uatomic_or(); break;
	case 25: uatomic_and(z, ~1L); cmm_smp_mb__after_uatomic_and(); break;
	case 26: uatomic_add(z, 1L); cmm_smp_mb__after_uatomic_add(); break;
	case 27: uatomic_inc(z); cmm_smp_mb__after_uatomic_inc(); break;
	case 28: uatomic_dec(z); cmm_smp_mb__after_uatomic_dec(); break;
	case 29: cmm_smp_mb__before_uatomic_or(); uatomic_or(z, 1L); break;
	case 30: (void) uatomic_xchg_mo(z, 1L, CMM_SEQ_CST); break;
	case 31: (void) uatomic_cmpxchg_mo(z, uatomic_read(z), 5L, CMM_SEQ_CST, CMM_SEQ_CST); break;
	case 32: (void) uatomic_add_return_mo(z, 3L, CMM_SEQ_CST); break;
	case 20: case 21: case 22: case 23: break;	/* the store itself carries the ordering: see first_store() */
	default: CMM_STORE_SHARED(*z, 1L); break;	/* control: no read-modify-write */
	}
}
static inline void first_store(int *x)
{
	switch (lit_kind) {
	case 20: uatomic_store(x, 1, CMM_SEQ_CST); break;				/* reader exit of urcu-mb / urcu-qsbr */
	case 21: uatomic_store(x, 1, CMM_RELAXED); cmm_smp_mb(); break;
	case 22: uatomic_set(x, 1); cmm_smp_mb(); break;
	case 23: uatomic_store(x, 1, CMM_SEQ_CST_FENCE); break;
	default: CMM_STORE_SHARED(*x, 1); break;
	}
}
static long both_zero;
static void *lit_thread(void *arg)
{
	int id = (int)(long)arg; unsigned sense = 0; uint64_t rng = 77 + id;
	cpu_set_t cs; CPU_ZERO(&cs); CPU_SET(id ? (sysconf(_SC_NPROCESSORS_ONLN) > 2 ? 2 : 1) : 0, &cs); (void) pthread_setaffinity_np(pthread_self(), sizeof cs, &cs);
	for (long r = 0; r < lit_rounds; r++) {
		if (id == 0) { X = 0; Y = 0; }
		bar_wait(&sense);
		for (int d = (int)(lcg(&rng) & 7); d > 0; d--) caa_cpu_relax();
		if (id == 0) { first_store(&X); rmw(&Z0, &W0); R0 = uatomic_load(&Y, CMM_RELAXED); }
		else { first_store(&Y); rmw(&Z1, &W1); R1 = uatomic_load(&X, CMM_RELAXED); }
		bar_wait(&sense);
		if (id == 0 && R0 == 0 && R1 == 0) both_zero++;
	}
	return NULL;
}
static int do_litmus(int argc, char **argv)
{
	static const char *kinds[] = { "none", "xchg", "cmpxchg", "add_return", "sub_return", "xchg32", "cmpxchg32", "add_return32", "sub_return32", "add_return_zero", "sub_return_zero", "add_return32_zero", "cmpxchg_same", "xchg_same",
		"", "", "", "", "", "", "store_seqcst", "store_relaxed_mb", "set_mb", "store_seqcst_fence", "or_mb_after", "and_mb_after", "add_mb_after", "inc_mb_after", "dec_mb_after", "mb_before_or", "xchg_mo_seqcst", "cmpxchg_mo_seqcst", "add_return_mo_seqcst" };
	if (argc < 4) return 2;
	lit_kind = -1; for (int i = 0; i < (int)(sizeof kinds / sizeof *kinds); i++) if (kinds[i][0] && !strcmp(argv[2], kinds[i])) lit_kind = i;
	if (lit_kind < 0) return 2;
	lit_rounds = atol(argv[3]);
	pthread_t a, b;
	pthread_create(&a, NULL, lit_thread, (void *)0L); pthread_create(&b, NULL, lit_thread, (void *)1L);
	pthread_join(a, NULL); pthread_join(b, NULL);
	printf("litmus kind=%s rounds=%ld both_zero=%ld\n", kinds[lit_kind], lit_rounds, both_zero);
	return 0;
}

int main(int argc, char **argv)
{
	if (argc >= 2 && !strcmp(argv[1], "run")) return do_run(argc, argv);
	if (argc >= 2 && !strcmp(argv[1], "litmus")) return do_litmus(argc, argv);
	fprintf(stderr, "usage: uat_conc run <nthreads> <iters> <seed> <type:off:mode>... | litmus <kind> <rounds>\n");
	return 2;
}
