/* White-box glue for lfht_fuzz.cc (C, because rculfhash-internal.h is not C++-clean): a recording bucket allocator that
 * wraps the order allocator and validates the order arguments (C09), and read-only access to ht->size / in_progress_resize. */
#include <urcu/urcu-mb.h>
#include <urcu/rculfhash.h>
#include <string.h>
#include <stdio.h>
#include <unistd.h>
#include "rculfhash-internal.h"

extern void glue_fail(const char *msg) __attribute__((noreturn));
void urcu_verif_cpu_relax(void) { __asm__ __volatile__("rep; nop" ::: "memory"); }

static unsigned long rec_max_order; static char rec_have[MAX_TABLE_ORDER]; static int destroying;
static const struct cds_lfht_mm_type recmm;

static int lazy_stuck;
void glue_rec_reset(unsigned long max_order) { lazy_stuck = 0; rec_max_order = max_order; memset(rec_have, 0, sizeof rec_have); destroying = 0; }
void glue_set_destroying(int v) { destroying = v; }
int glue_rec_outstanding(void) { int n = 0; for (int i = 0; i < MAX_TABLE_ORDER; i++) n += __atomic_load_n(&rec_have[i], __ATOMIC_ACQUIRE); return n; }
unsigned long glue_ht_size(struct cds_lfht *ht) { return ht->size; }
unsigned long glue_max_table_order(void) { return MAX_TABLE_ORDER; }
void glue_wait_resize(struct cds_lfht *ht)
{	/* synchronisation only: give a queued lazy resize a moment to finish so that runs are nearly deterministic (operations concurrent with a
	 * resize are legal anyway). resize_initiated cannot be trusted: __cds_lfht_resize_lazy_launch() sets it after queueing the work, so it can
	 * stay 1 with nothing queued, after which later lazy resizes are never launched and size != resize_target persists (observed on the
	 * unchanged tree; affects only performance, not a listed property). Once that state is recognised we stop waiting for this table. */
	if (lazy_stuck) return;
	long i;
	for (i = 0; ht->size != uatomic_read(&ht->resize_target) && !uatomic_read(&ht->in_progress_destroy) && i < 400; i++) { if (i < 200) caa_cpu_relax(); else usleep(20); }
	if (i == 400) lazy_stuck = 1;
	for (i = 0; uatomic_read(&ht->resize_initiated) && i < 2000; i++) caa_cpu_relax();
}
static void recmm_alloc_bucket_table(struct cds_lfht *ht, unsigned long order)
{
	char b[160];
	if (order > rec_max_order) { snprintf(b, sizeof b, "bucket allocator asked for order %lu although log2(max_nr_buckets) = %lu", order, rec_max_order); glue_fail(b); }
	if (rec_have[order]) { snprintf(b, sizeof b, "bucket allocator asked to allocate order %lu twice", order); glue_fail(b); }
	rec_have[order] = 1;
	cds_lfht_mm_order.alloc_bucket_table(ht, order);
}
static void recmm_free_bucket_table(struct cds_lfht *ht, unsigned long order)
{
	char b[160];
	if (!rec_have[order]) { snprintf(b, sizeof b, "bucket allocator asked to free order %lu which is not allocated", order); glue_fail(b); }
	if (order && ht->size > (1UL << (order - 1)) && !ht->in_progress_destroy && !destroying) {
		snprintf(b, sizeof b, "bucket level of order %lu freed while the published size is still %lu", order, ht->size); glue_fail(b);
	}
	rec_have[order] = 0;
	cds_lfht_mm_order.free_bucket_table(ht, order);
}
static struct cds_lfht_node *recmm_bucket_at(struct cds_lfht *ht, unsigned long index) { return cds_lfht_mm_order.bucket_at(ht, index); }
static struct cds_lfht *recmm_alloc_cds_lfht(unsigned long min_nr_alloc_buckets, unsigned long max_nr_buckets, const struct cds_lfht_alloc *alloc)
{
	return __default_alloc_cds_lfht(&recmm, alloc, sizeof(struct cds_lfht), min_nr_alloc_buckets, max_nr_buckets);
}
static const struct cds_lfht_mm_type recmm = { recmm_alloc_cds_lfht, recmm_alloc_bucket_table, recmm_free_bucket_table, recmm_bucket_at };
const struct cds_lfht_mm_type *glue_recmm(void) { return &recmm; }

/* The table sizes its per-cpu counters and its resize helper threads from the number of possible cpus. Four (not this machine's sixteen) keeps
 * multi-threaded partitioned resizes with a full complement of helpers (as many as cpus) inside the table sizes a fuzz case reaches. */
#include <fcntl.h>
#include <stdarg.h>
#include <sys/mman.h>
extern int __real_open(const char *path, int flags, ...);
int __wrap_open(const char *path, int flags, ...)
{
	va_list ap; va_start(ap, flags); int mode = va_arg(ap, int); va_end(ap);
	if (!strcmp(path, "/sys/devices/system/cpu/possible")) {
		int fd = memfd_create("possible", 0);
		if (fd >= 0) { (void) !write(fd, "0-3\n", 4); lseek(fd, 0, SEEK_SET); return fd; }
	}
	return __real_open(path, flags, mode);
}
