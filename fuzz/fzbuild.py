#!/usr/bin/env python3
"""Build the E2 libFuzzer targets from /repo's current working tree (hash-keyed, like engine/build.py)."""
import hashlib, os, subprocess, sys, glob, shutil
from concurrent.futures import ThreadPoolExecutor

VERIF = os.path.dirname(os.path.dirname(os.path.abspath(__file__)))
REPO = os.environ.get("VERIF_REPO", "/repo")
FZ = os.path.join(VERIF, "fuzz")
CFG = os.path.join(VERIF, "engine", "cfg")
BUILD = os.path.join(VERIF, "build")
SAN = ["-fsanitize=address,undefined", "-fno-sanitize=alignment", "-fno-sanitize-recover=undefined"]
COMMON = ["-O1", "-g", "-D_GNU_SOURCE", "-DHAVE_CONFIG_H", "-include", os.path.join(CFG, "config.h"), "-I" + CFG,
          "-I" + os.path.join(REPO, "include"), "-I" + os.path.join(REPO, "src"), "-w"]
# hooks: small-table access to the partitioned resize and the counter-driven lazy resize (C09)
TUNE = ["-DURCU_VERIF", "-DURCU_VERIF_MIN_PARTITION_PER_THREAD_ORDER=4", "-DURCU_VERIF_COUNT_COMMIT_ORDER=2"]
LIBSRC = [("urcu.c", ["-DRCU_MB"]), ("urcu-pointer.c", []), ("wfcqueue.c", []), ("wfstack.c", []), ("compat_arch.c", []),
          ("compat_futex.c", []), ("workqueue.c", []), ("rculfhash.c", []), ("rculfhash-mm-order.c", []), ("rculfhash-mm-chunk.c", []),
          ("rculfhash-mm-mmap.c", [])]
TARGETS = {"lfht_fuzz": dict(src="lfht_fuzz.cc", lib=True, csrc=["lfht_glue.c"]),
           "uat_fuzz": dict(src="uat_fuzz.cc", lib=False, uat=True, flags=["-I" + FZ])}
# C20: the same instantiation file built eight ways (implementation x language x compiler)
UAT_VARIANTS = [("asm_c", "clang", "c", []), ("asm_cxx", "clang", "c++", []), ("bi_c", "clang", "c", ["-DCONFIG_RCU_USE_ATOMIC_BUILTINS"]),
                ("bi_cxx", "clang", "c++", ["-DCONFIG_RCU_USE_ATOMIC_BUILTINS"]), ("gasm_c", "gcc", "c", []), ("gasm_cxx", "gcc", "c++", []),
                ("gbi_c", "gcc", "c", ["-DCONFIG_RCU_USE_ATOMIC_BUILTINS"]), ("gbi_cxx", "gcc", "c++", ["-DCONFIG_RCU_USE_ATOMIC_BUILTINS"])]


def input_hash(name):
    h = hashlib.sha256()
    files = []
    for root in (os.path.join(REPO, "src"), os.path.join(REPO, "include")):
        for dp, dn, fn in os.walk(root):
            dn[:] = [d for d in dn if d not in (".libs", ".deps")]
            files += [os.path.join(dp, f) for f in fn if f.endswith((".c", ".h"))]
    files += glob.glob(os.path.join(FZ, "*.c")) + glob.glob(os.path.join(FZ, "*.cc")) + glob.glob(os.path.join(FZ, "*.py")) + glob.glob(os.path.join(FZ, "*.h"))
    for f in sorted(files):
        h.update(f.encode()); h.update(open(f, "rb").read())
    h.update(name.encode())
    return h.hexdigest()[:16]


def run(cmd):
    r = subprocess.run(cmd, capture_output=True, text=True)
    return r.returncode, cmd, r.stdout + r.stderr


def build(name):
    t = TARGETS[name]
    out = os.path.join(BUILD, "e2-%s-%s" % (name, input_hash(name)))
    binp = os.path.join(out, name)
    if os.path.exists(binp):
        return binp
    tmp = out + ".tmp%d" % os.getpid()
    shutil.rmtree(tmp, ignore_errors=True); os.makedirs(tmp)
    jobs = []
    if t.get("lib"):
        for src, fl in LIBSRC:
            jobs.append(["clang", "-fsanitize=fuzzer-no-link"] + SAN + COMMON + TUNE + fl + ["-c", os.path.join(REPO, "src", src), "-o", os.path.join(tmp, src[:-2] + ".o")])
    if t.get("uat"):
        for pfx, cc, lang, fl in UAT_VARIANTS:
            jobs.append([cc, "-x", lang, "-O2" if cc == "gcc" else "-O1", "-g", "-D_GNU_SOURCE", "-I" + CFG, "-I" + FZ, "-I" + os.path.join(REPO, "include"), "-w",
                         "-DPFX=" + pfx] + fl + ["-c", os.path.join(FZ, "uat_impl.c"), "-o", os.path.join(tmp, "uat_" + pfx + ".o")])
    for c in t.get("csrc", []):
        jobs.append(["clang", "-fsanitize=fuzzer-no-link"] + SAN + COMMON + TUNE + ["-c", os.path.join(FZ, c), "-o", os.path.join(tmp, "x_" + c[:-2] + ".o")])
    jobs.append(["clang++", "-std=gnu++17", "-fsanitize=fuzzer-no-link"] + SAN + COMMON + TUNE + t.get("flags", []) + ["-c", os.path.join(FZ, t["src"]), "-o", os.path.join(tmp, "target.o")])
    with ThreadPoolExecutor(16) as ex:
        res = list(ex.map(run, jobs))
    bad = [r for r in res if r[0]]
    if bad:
        for rc, cmd, o in bad:
            sys.stderr.write("BUILD FAILED: %s\n%s\n" % (" ".join(cmd), o[-3000:]))
        shutil.rmtree(tmp, ignore_errors=True); raise SystemExit(3)
    rc, cmd, o = run(["clang++", "-fsanitize=fuzzer"] + SAN + sorted(glob.glob(os.path.join(tmp, "*.o"))) + ["-o", os.path.join(tmp, name), "-pthread"] + (["-Wl,--wrap=open"] if t.get("lib") else []))
    if rc:
        sys.stderr.write("LINK FAILED: %s\n%s\n" % (" ".join(cmd), o[-3000:])); shutil.rmtree(tmp, ignore_errors=True); raise SystemExit(3)
    for f in glob.glob(os.path.join(tmp, "*.o")):
        os.unlink(f)
    try:
        os.rename(tmp, out)
    except OSError:
        shutil.rmtree(tmp, ignore_errors=True)
    olds = sorted(glob.glob(os.path.join(BUILD, "e2-%s-*" % name)), key=os.path.getmtime)
    for d in olds[:-3]:
        if d != out and ".tmp" not in d:
            shutil.rmtree(d, ignore_errors=True)
    return binp


if __name__ == "__main__":
    print(build(sys.argv[1] if len(sys.argv) > 1 else "lfht_fuzz"))
