// C20 (sequential part): libFuzzer target. Bytes -> (operand type, operation, position inside an 8-byte word surrounded by guard words, memory image,
// operands biased to sign/width boundary values, operand passing style). Oracle: a plain-C reference on the byte image - returned value (sign- or
// zero-extended as the operand type prescribes), stored value truncated to the operand width, every neighbouring byte unchanged - for each of the eight
// builds of the real macros: {x86 asm, compiler builtins} x {C, C++} x {clang, gcc}.
#include <cstdint>
#include <cstdio>
#include <cstdlib>
#include <cstring>
#include <cstdarg>
#include <string>
#include <vector>
#include <unordered_set>
#include <unistd.h>
#include <fuzzer/FuzzedDataProvider.h>
#include "uat_ops.h"

#define IMPLS(X) X(asm_c) X(asm_cxx) X(bi_c) X(bi_cxx) X(gasm_c) X(gasm_cxx) X(gbi_c) X(gbi_cxx)
#define DECL(n) extern "C" int n##_apply(int type, int op, int typed, void *addr, uint64_t a, uint64_t b, uint64_t *ret, int pre, uint64_t init);
IMPLS(DECL)
typedef int (*apply_fn)(int, int, int, void *, uint64_t, uint64_t, uint64_t *, int, uint64_t);
#define ENT(n) { #n, n##_apply },
static const struct { const char *name; apply_fn fn; } impls[] = { IMPLS(ENT) };
static const int NIMPL = sizeof impls / sizeof impls[0];

static const char *tnames[] = { "signed char", "unsigned char", "short", "unsigned short", "int", "unsigned int", "long", "unsigned long" };
static const char *onames[] = { "uatomic_set", "uatomic_read", "uatomic_xchg", "uatomic_cmpxchg", "uatomic_add_return", "uatomic_sub_return", "uatomic_add", "uatomic_sub",
	"uatomic_inc", "uatomic_dec", "uatomic_and", "uatomic_or", "uatomic_load", "uatomic_store" };
static const int widths[] = { 1, 1, 2, 2, 4, 4, 8, 8 };

static unsigned long n_cases, n_hits;
static std::unordered_set<uint64_t> nontrivial;
static unsigned long cls[UOP_N + UT_N + 4];
static std::vector<std::string> samples;
static void flush_stats()
{
	const char *dir = getenv("VERIF_FUZZ_STATS");
	if (!dir) return;
	char path[512]; snprintf(path, sizeof path, "%s/stats-%d.json", dir, (int)getpid());
	FILE *f = fopen(path, "w"); if (!f) return;
	fprintf(f, "{\"evaluations\": %lu, \"excluded\": 0, \"classes\": {", n_cases);
	for (int i = 0; i < UOP_N; i++) fprintf(f, "\"%s\": %lu, ", onames[i], cls[i]);
	for (int i = 0; i < UT_N; i++) fprintf(f, "\"type %s\": %lu, ", tnames[i], cls[UOP_N + i]);
	fprintf(f, "\"result_wrapped_or_sign_bit\": %lu, \"operand_wider_than_type\": %lu, \"cmpxchg_success\": %lu, \"untyped_operand\": %lu", cls[UOP_N + UT_N], cls[UOP_N + UT_N + 1], cls[UOP_N + UT_N + 2], cls[UOP_N + UT_N + 3]);
	fprintf(f, "}, \"nontrivial\": [");
	bool first = true; for (uint64_t h : nontrivial) { fprintf(f, "%s\"%016llx\"", first ? "" : ",", (unsigned long long)h); first = false; }
	fprintf(f, "], \"samples\": [");
	for (size_t i = 0; i < samples.size(); i++) fprintf(f, "%s\"%s\"", i ? "," : "", samples[i].c_str());
	fprintf(f, "]}\n"); fclose(f);
}
static std::string trace;
static void fail(const char *fmt, ...) __attribute__((noreturn, format(printf, 1, 2)));
static void fail(const char *fmt, ...)
{
	char b[700]; va_list ap; va_start(ap, fmt); vsnprintf(b, sizeof b, fmt, ap); va_end(ap);
	fprintf(stderr, "\n==ORACLE== %s\n--- decoded case ---\n%s\n--- end ---\n", b, trace.c_str());
	flush_stats();
	__builtin_trap();
}

static uint64_t mask_of(int w) { return w == 8 ? ~0ull : (1ull << (8 * w)) - 1; }
static uint64_t ext(int type, uint64_t v)	// value of the operand type converted to uint64_t the way C converts it
{
	int w = widths[type]; v &= mask_of(w);
	if (!(type & 1) && w < 8 && (v >> (8 * w - 1) & 1)) v |= ~mask_of(w);	// signed types sign-extend
	return v;
}
static uint64_t pool(FuzzedDataProvider &fdp, int w)
{
	uint64_t top = 1ull << (8 * w - 1);
	switch (fdp.ConsumeIntegralInRange<int>(0, 15)) {
	case 0: return 0; case 1: return 1; case 2: return ~0ull; case 3: return top; case 4: return top - 1; case 5: return top + 1;
	case 6: return mask_of(w); case 7: return mask_of(w) - 1; case 8: return mask_of(w) + 1; case 9: return (mask_of(w) + 1) | 1;
	case 10: return 0x8000000000000000ull; case 11: return 0x00000000ffffffffull; case 12: return 0xffffffff00000000ull; case 13: return 2;
	default: return fdp.ConsumeIntegral<uint64_t>();
	}
}

static uint64_t pool_at(int k, int w)
{
	uint64_t top = 1ull << (8 * w - 1);
	const uint64_t v[] = { 0, 1, ~0ull, top, top - 1, top + 1, mask_of(w), mask_of(w) - 1, mask_of(w) + 1, (mask_of(w) + 1) | 1, 0x8000000000000000ull, 0x00000000ffffffffull, 0xffffffff00000000ull, 2 };
	return v[k];
}
static unsigned long grid_cases;
static void check_case(int type, int op, int off, int typed, uint64_t oldv, uint64_t a, uint64_t b, const unsigned char *guard, int pre)
{
	int w = widths[type];
	alignas(8) unsigned char image[24];
	memcpy(image, guard, 24);
	uint64_t om = oldv & mask_of(w);
	memcpy(image + 8 + off, &om, w);
	char tb[400];
	snprintf(tb, sizeof tb, "%s on %s at byte %d of the word, old value 0x%llx, operand a=0x%llx b=0x%llx, operands passed %s%s", onames[op], tnames[type], off,
		(unsigned long long)om, (unsigned long long)a, (unsigned long long)b, typed == 1 ? "with the operand type" : typed == 2 ? "as unsigned int" : typed == 3 ? "as int" : "as (unsigned) long", pre ? ", old value written by a plain C assignment immediately before the call" : "");
	trace = tb;
	if (!grid_cases) n_cases++;

	// ---- reference on the byte image
	// the operand value is the C conversion of the passed expression to the operand type: (unsigned int)a zero-extends, (int)a sign-extends, then truncation to the width
	uint64_t aval = typed == 2 ? (uint64_t)(unsigned int)a : typed == 3 ? (uint64_t)(int64_t)(int)a : a;
	uint64_t m = mask_of(w), at = (op == UOP_CMPXCHG || op == UOP_STORE ? a : aval) & m, bt = b & m, newv = om, expret = 0; int has_ret = 0;
	switch (op) {
	case UOP_SET: case UOP_STORE: newv = at; break;
	case UOP_READ: case UOP_LOAD: expret = om; has_ret = 1; break;
	case UOP_XCHG: newv = at; expret = om; has_ret = 1; break;
	case UOP_CMPXCHG: if (om == at) newv = bt; expret = om; has_ret = 1; break;
	case UOP_ADD_RETURN: newv = (om + at) & m; expret = newv; has_ret = 1; break;
	case UOP_SUB_RETURN: newv = (om - at) & m; expret = newv; has_ret = 1; break;
	case UOP_ADD: newv = (om + at) & m; break;
	case UOP_SUB: newv = (om - at) & m; break;
	case UOP_INC: newv = (om + 1) & m; break;
	case UOP_DEC: newv = (om - 1) & m; break;
	case UOP_AND: newv = om & at; break;
	case UOP_OR: newv = om | at; break;
	}
	expret = ext(type, expret);
	unsigned char expimg[24]; memcpy(expimg, image, 24); memcpy(expimg + 8 + off, &newv, w);

	for (int i = 0; i < NIMPL; i++) {
		alignas(8) unsigned char img[24]; memcpy(img, image, 24);
		if (pre) memset(img + 8 + off, 0x3c, w);	/* the assignment inside the instantiation must provide the old value */
		uint64_t ret = 0xabababababababab;
		int hr = impls[i].fn(type, op, typed, img + 8 + off, a, b, &ret, pre, oldv);
		if (hr != has_ret) fail("[%s] internal: return-value presence mismatch", impls[i].name);
		if (has_ret && ret != expret)
			fail("[%s] %s returned 0x%llx, the documented sequential semantics give 0x%llx (as %s converted to 64 bits)", impls[i].name, onames[op], (unsigned long long)ret, (unsigned long long)expret, tnames[type]);
		if (memcmp(img, expimg, 24)) {
			uint64_t got; memcpy(&got, img + 8 + off, 8 - off > 8 ? 8 : (w)); got &= m;
			int nb = -1; for (int k = 0; k < 24; k++) if ((k < 8 + off || k >= 8 + off + w) && img[k] != expimg[k]) { nb = k; break; }
			if (nb >= 0) fail("[%s] %s changed neighbouring byte %d (relative to the operand: %d): 0x%02x -> 0x%02x", impls[i].name, onames[op], nb, nb - 8 - off, expimg[nb], img[nb]);
			fail("[%s] %s stored 0x%llx, the documented sequential semantics give 0x%llx", impls[i].name, onames[op], (unsigned long long)got, (unsigned long long)newv);
		}
	}
	if (grid_cases) return;	// the enumerated grid is counted separately
	// classes / non-triviality: boundary behaviour was exercised
	cls[op]++; cls[UOP_N + type]++;
	bool wrapped = (op == UOP_ADD_RETURN || op == UOP_ADD) ? (om + at) > m || ((om + at) & m) < om : (op == UOP_SUB_RETURN || op == UOP_SUB) ? om < at : (op == UOP_INC) ? om == m : (op == UOP_DEC) ? om == 0 : false;
	bool signbit = w < 8 ? ((newv | om) >> (8 * w - 1) & 1) : ((newv | om) >> 63 & 1);
	bool wide = (a & ~m) != 0 && op != UOP_READ && op != UOP_LOAD && op != UOP_INC && op != UOP_DEC;
	if (wrapped || signbit) cls[UOP_N + UT_N]++;
	if (wide) cls[UOP_N + UT_N + 1]++;
	if (op == UOP_CMPXCHG && om == at) cls[UOP_N + UT_N + 2]++;
	if (typed != 1) cls[UOP_N + UT_N + 3]++;
	if (wrapped || signbit || wide) {
		n_hits++;
		uint64_t h = 1469598103934665603ull; for (unsigned char c : trace) { h ^= c; h *= 1099511628211ull; }
		if (nontrivial.size() < 4000000) nontrivial.insert(h);
		if (samples.size() < 3 && n_hits % 101 == 1) samples.push_back(trace);
	}
}
// exhaustive enumeration of the boundary grid: every type x operation x aligned position x operand passing style {operand type, (unsigned) long, unsigned int, int} x old-value-written-by-plain-assignment {no, yes} x (old, a, b) in the 14-value boundary pool
#include <fcntl.h>
static void grid()
{
	// one fuzzer process of the campaign enumerates the grid (the first to create the lock file); a stand-alone replay always does
	if (const char *dir = getenv("VERIF_FUZZ_STATS")) { char lk[512]; snprintf(lk, sizeof lk, "%s/grid.lock", dir); int fd = open(lk, O_CREAT | O_EXCL | O_WRONLY, 0644); if (fd < 0) return; close(fd); }
	unsigned char guard[24]; for (int i = 0; i < 24; i++) guard[i] = 0xa5 ^ (i * 17);
	grid_cases = 1;
	for (int type = 0; type < UT_N; type++) for (int op = 0; op < UOP_N; op++) for (int off = 0; off < 8; off += widths[type]) for (int typed = 0; typed < 4; typed++) for (int pre = 0; pre < 2; pre++)
		for (int i = 0; i < 14; i++) for (int j = 0; j < 14; j++) for (int k = 0; k < 14; k++) {
			check_case(type, op, off, typed, pool_at(i, widths[type]), pool_at(j, widths[type]), pool_at(k, widths[type]), guard, pre);
			grid_cases++;
		}
	const char *dir = getenv("VERIF_FUZZ_STATS");
	if (dir) { char path[512]; snprintf(path, sizeof path, "%s/grid-%d.txt", dir, (int)getpid()); FILE *f = fopen(path, "w"); if (f) { fprintf(f, "%lu\n", grid_cases - 1); fclose(f); } }
	grid_cases = 0;
}
extern "C" int LLVMFuzzerTestOneInput(const uint8_t *data, size_t size)
{
	static bool init; if (!init) { init = true; atexit(flush_stats); if (getenv("VERIF_UAT_GRID")) grid(); }
	if (size < 4) return 0;
	FuzzedDataProvider fdp(data, size);
	int type = fdp.ConsumeIntegralInRange<int>(0, UT_N - 1), op = fdp.ConsumeIntegralInRange<int>(0, UOP_N - 1), w = widths[type];
	int off = fdp.ConsumeIntegralInRange<int>(0, 8 / w - 1) * w;	// every naturally aligned position inside the word
	int typed = fdp.ConsumeIntegralInRange<int>(0, 5); if (typed > 3) typed = 1;
	uint64_t oldv = pool(fdp, w), a = pool(fdp, w), b = pool(fdp, w);
	if (op == UOP_CMPXCHG && fdp.ConsumeBool()) a = oldv;	// make the comparison succeed half of the time
	unsigned char guard[24];
	for (int i = 0; i < 24; i++) guard[i] = fdp.ConsumeIntegral<uint8_t>() | 1;	// guards: nonzero pattern
	int pre = fdp.ConsumeBool();
	check_case(type, op, off, typed, oldv, a, b, guard, pre);
	return 0;
}
