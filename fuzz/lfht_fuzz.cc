// E2: libFuzzer model-based target for the RCU lock-free hash table (C08; input-quantified part of C09).
// Bytes are decoded structurally into a table configuration and an operation sequence which is applied to the
// library and to a reference multimap after every step (DESIGN.md §5, §6 C08/C09).
#include <fuzzer/FuzzedDataProvider.h>
#include <cstdint>
#include <cstdio>
#include <cstdlib>
#include <cstring>
#include <vector>
#include <string>
#include <unordered_set>
#include <algorithm>
#include <mutex>
#include <thread>
#include <atomic>
#include <ctime>
#include <unistd.h>
#include <signal.h>
#include <sys/stat.h>

#include <urcu/urcu-mb.h>
#include <urcu/rculfhash.h>
extern "C" {
void glue_rec_reset(unsigned long max_order);
void glue_set_destroying(int v);
int glue_rec_outstanding(void);
unsigned long glue_ht_size(struct cds_lfht *ht);
unsigned long glue_max_table_order(void);
void glue_wait_resize(struct cds_lfht *ht);
const struct cds_lfht_mm_type *glue_recmm(void);
void glue_fail(const char *msg) __attribute__((noreturn));
}
#define MAX_TABLE_ORDER 64

struct Node { struct cds_lfht_node n; int key; int id; bool live; bool added; };

static std::string trace;		// decoded case, for reports and samples
static void T(const char *fmt, ...) __attribute__((format(printf, 1, 2)));
static void T(const char *fmt, ...)
{
	char b[256]; va_list ap; va_start(ap, fmt); vsnprintf(b, sizeof b, fmt, ap); va_end(ap);
	trace += b; trace += "\n";
}

// ---- statistics (flushed at exit and before any trap)
static unsigned long n_cases, n_nontrivial_hits, n_excluded;
static std::unordered_set<uint64_t> nontrivial;
static unsigned long cls[16];
static const char *cls_names[16] = { "collision", "duplicate_key", "resize_op", "auto_resize", "accounting", "mm_default", "mm_order", "mm_chunk", "mm_mmap",
	"mm_recording", "custom_alloc", "new_rejected", "replace_via_saved_iter", "nonpow2_resize", "destroy_nonempty_refused", "del_of_removed_node" };
static std::vector<std::string> samples;
static uint64_t fnv(const std::string &s) { uint64_t h = 1469598103934665603ull; for (unsigned char c : s) { h ^= c; h *= 1099511628211ull; } return h; }
static void flush_stats()
{
	const char *dir = getenv("VERIF_FUZZ_STATS");
	if (!dir) return;
	char path[512]; snprintf(path, sizeof path, "%s/stats-%d.json", dir, (int)getpid());
	FILE *f = fopen(path, "w"); if (!f) return;
	fprintf(f, "{\"evaluations\": %lu, \"excluded\": %lu, \"classes\": {", n_cases, n_excluded);
	for (int i = 0; i < 16; i++) fprintf(f, "%s\"%s\": %lu", i ? ", " : "", cls_names[i], cls[i]);
	fprintf(f, "}, \"nontrivial\": [");
	bool first = true; for (uint64_t h : nontrivial) { fprintf(f, "%s\"%016llx\"", first ? "" : ",", (unsigned long long)h); first = false; }
	fprintf(f, "], \"samples\": [");
	for (size_t i = 0; i < samples.size(); i++) {
		fprintf(f, "%s\"", i ? "," : "");
		for (char c : samples[i]) { if (c == '\n') fputs("\\n", f); else if (c == '"' || c == '\\') { fputc('\\', f); fputc(c, f); } else fputc(c, f); }
		fputc('"', f);
	}
	fprintf(f, "]}\n"); fclose(f);
}
static void fail(const char *fmt, ...) __attribute__((noreturn, format(printf, 1, 2)));
static void fail(const char *fmt, ...)
{
	char b[512]; va_list ap; va_start(ap, fmt); vsnprintf(b, sizeof b, fmt, ap); va_end(ap);
	fprintf(stderr, "\n==ORACLE== %s\n--- decoded case ---\n%s--- end ---\n", b, trace.c_str());
	flush_stats();
	__builtin_trap();
}

// ---- custom cds_lfht_alloc (recording)
static std::mutex rec_mu;
static std::unordered_set<void *> live_allocs; static size_t live_bytes, peak_bytes, first_alloc;
static std::vector<std::pair<void *, size_t>> alloc_sizes;
static void rec_add(void *p, size_t n) { if (!p) return; std::lock_guard<std::mutex> g(rec_mu); live_allocs.insert(p); alloc_sizes.push_back({p, n}); live_bytes += n; if (live_bytes > peak_bytes) peak_bytes = live_bytes; if (!first_alloc) first_alloc = n; }
static void *rec_malloc(void *, size_t n) { void *p = malloc(n); rec_add(p, n); return p; }
static void *rec_calloc(void *, size_t a, size_t b) { void *p = calloc(a, b); rec_add(p, a * b); return p; }
static void *rec_realloc(void *, void *o, size_t n) { (void)o; (void)n; fail("custom allocator: realloc called (not expected)"); }
static void *rec_aligned(void *, size_t al, size_t n) { void *p = NULL; if (posix_memalign(&p, al < sizeof(void *) ? sizeof(void *) : al, n)) p = NULL; rec_add(p, n); return p; }
static void rec_free(void *, void *p)
{
	if (!p) return;
	std::lock_guard<std::mutex> g(rec_mu);
	if (!live_allocs.erase(p)) fail("custom allocator: free(%p) of a block that is not live (double free or foreign pointer)", p);
	for (auto it = alloc_sizes.rbegin(); it != alloc_sizes.rend(); ++it) if (it->first == p) { live_bytes -= it->second; it->first = NULL; break; }
	free(p);
}
static struct cds_lfht_alloc rec_alloc = { rec_malloc, rec_calloc, rec_realloc, rec_aligned, rec_free, NULL };

extern "C" void glue_fail(const char *msg) { fail("%s", msg); }

// ---- hang watchdog (termination clause of C09): an operation that runs for HANG_S seconds is reported with the decoded case
static std::atomic<long> op_started{0}; static std::atomic<unsigned long> op_arg{0};
static long HANG_S = 8;
static void watchdog()
{
	for (;;) {
		usleep(200000);
		long s = op_started.load();
		if (s && time(NULL) - s >= HANG_S) {
			fprintf(stderr, "\n==ORACLE== HANG: cds_lfht_resize(ht, %lu) has not returned after %ld s\n--- decoded case ---\n%s--- end ---\n", op_arg.load(), HANG_S, trace.c_str());
			flush_stats();
			abort();
		}
	}
}

static int match(struct cds_lfht_node *n, const void *key) { return ((Node *)n)->key == *(const int *)key; }

static bool registered;
static const unsigned long RESIZE_POOL[] = { 0, 1, 2, 3, 4, 5, 6, 7, 8, 12, 16, 31, 32, 33, 64, 100, 128, 255, 256, 1000, 1024, 4096, 1UL << 20, (1UL << 20) + 1, ~0UL >> 1, ~0UL };

static void wait_resize(struct cds_lfht *ht) { glue_wait_resize(ht); }

extern "C" int LLVMFuzzerTestOneInput(const uint8_t *data, size_t size)
{
	if (!registered) { urcu_mb_register_thread(); registered = true; atexit(flush_stats); if (getenv("VERIF_HANG_S")) HANG_S = atol(getenv("VERIF_HANG_S")); std::thread(watchdog).detach(); }
	if (size < 8) return 0;
	FuzzedDataProvider fdp(data, size);
	trace.clear();
	{ std::lock_guard<std::mutex> g(rec_mu); live_allocs.clear(); alloc_sizes.clear(); live_bytes = peak_bytes = first_alloc = 0; } 

	// ---- configuration
	unsigned init_o = fdp.ConsumeIntegralInRange<unsigned>(0, 10), min_o = fdp.ConsumeIntegralInRange<unsigned>(0, 10), max_o = fdp.ConsumeIntegralInRange<unsigned>(0, 11);
	unsigned long init = 1UL << init_o, mn = 1UL << min_o, mx = max_o == 11 ? 0 : 1UL << max_o;
	int flags = fdp.ConsumeIntegralInRange<int>(0, 3);
	int mmsel = fdp.ConsumeIntegralInRange<int>(0, 4);
	bool custom = fdp.ConsumeBool();
	if (flags & CDS_LFHT_AUTO_RESIZE) custom = true;	// the asynchronous destroy of an AUTO_RESIZE table is only observable through the allocator: needed to keep iterations independent
	int invalid = fdp.ConsumeIntegralInRange<int>(0, 15);	// 1..3: make one parameter a non power of two
	if (invalid == 1) init += 1 + (init > 1); else if (invalid == 2) mn = mn * 3 + (mn == 1 ? 2 : 0); else if (invalid == 3 && mx) mx = mx * 3 + (mx == 1 ? 2 : 0);
	if (invalid == 1 && (init & (init - 1)) == 0) init = 3;
	if (invalid == 2 && (mn & (mn - 1)) == 0) mn = 3;
	if (invalid == 3 && mx && (mx & (mx - 1)) == 0) mx = 6;
	const struct cds_lfht_mm_type *mm = mmsel == 0 ? NULL : mmsel == 1 ? &cds_lfht_mm_order : mmsel == 2 ? &cds_lfht_mm_chunk : mmsel == 3 ? &cds_lfht_mm_mmap : glue_recmm();
	if (mmsel == 2 && mx == 0) mx = 1UL << 10;	// chunk/mmap need a finite maximum (0 = "infinite" is only meaningful for order)
	if ((mmsel == 3 || mmsel == 4) && mx == 0) mx = 1UL << 10;
	if (mmsel == 2 && mx / std::max(mn, 1UL) > 4096) mn = mx / 4096;
	uint64_t hpool[8];
	static const uint64_t HP[] = { 0, ~0ull, 5, 5, 5 | 1ull << 63, 5 | 1ull << 32, 1, 2, 3, 4, 6, 7, 8, 0x8000000000000000ull, 0x5555555555555555ull, 0xfffffffffffffffeull };
	for (int k = 0; k < 8; k++) {
		int c = fdp.ConsumeIntegralInRange<int>(0, 17);
		hpool[k] = c < 16 ? HP[c] : c == 16 ? (uint64_t)k : fdp.ConsumeIntegral<uint64_t>();
	}
	T("new init=%lu min=%lu max=%lu flags=%d mm=%d custom_alloc=%d", init, mn, mx, flags, mmsel, (int)custom);
	{ std::string hs = "hashes"; char b[32]; for (int k = 0; k < 8; k++) { snprintf(b, sizeof b, " %llx", (unsigned long long)hpool[k]); hs += b; } T("%s", hs.c_str()); }

	bool pow2 = (init && !(init & (init - 1))) && (mn && !(mn & (mn - 1))) && (!mx || !(mx & (mx - 1)));
	unsigned long rec_max_order = 0;
	{
		unsigned long effmax = mx ? mx : 1UL << (MAX_TABLE_ORDER - 1);
		effmax = std::max(effmax, std::max(mn, 1UL));
		while ((1UL << rec_max_order) < effmax && rec_max_order < MAX_TABLE_ORDER - 1) rec_max_order++;
	}
	glue_rec_reset(rec_max_order);
	struct cds_lfht *ht = custom ? _cds_lfht_new_with_alloc(init, mn, mx, flags, mm, &urcu_mb_flavor, &rec_alloc, NULL)
				     : _cds_lfht_new(init, mn, mx, flags, mm, &urcu_mb_flavor, NULL);
	n_cases++;
	if (!pow2) {
		cls[11]++;
		if (ht) fail("cds_lfht_new accepted a parameter that is not a power of two (init=%lu min=%lu max=%lu)", init, mn, mx);
		return 0;
	}
	if (!ht) fail("cds_lfht_new returned NULL for valid parameters init=%lu min=%lu max=%lu flags=%d mm=%d", init, mn, mx, flags, mmsel);
	unsigned long eff_max = mx ? std::max(mx, mn) : 0;

	std::vector<Node *> all;		// every node ever created (freed at the end)
	std::vector<Node *> live;		// reference multimap: live nodes
	struct { struct cds_lfht_iter it; Node *n; bool set; } saved[2] = {};
	bool f_collision = false, f_dup = false, f_resize = false, f_nonpow2 = false;
	auto new_node = [&](int key) { Node *n = (Node *)calloc(1, sizeof(Node)); cds_lfht_node_init(&n->n); n->key = key; n->id = (int)all.size(); all.push_back(n); return n; };
	auto count_key = [&](int key) { int c = 0; for (Node *n : live) if (n->key == key) c++; return c; };
	auto is_live = [&](Node *n) { return n && std::find(live.begin(), live.end(), n) != live.end(); };
	auto kill = [&](Node *n) { live.erase(std::find(live.begin(), live.end(), n)); n->live = false; };
	auto check_all = [&](const char *when) {
		// every stored node is found by lookup+duplicate walk; full scan = exactly the stored nodes, each once; count_nodes = model size
		urcu_mb_read_lock();
		for (int key = 0; key < 8; key++) {
			std::vector<Node *> seen; struct cds_lfht_iter it;
			cds_lfht_lookup(ht, hpool[key], match, &key, &it);
			for (struct cds_lfht_node *p; (p = cds_lfht_iter_get_node(&it)) != NULL; cds_lfht_next_duplicate(ht, match, &key, &it)) {
				Node *n = (Node *)p;
				if (!is_live(n) || n->key != key) fail("%s: duplicate walk for key %d returned node %d which is not a stored node with that key", when, key, n->id);
				if (std::find(seen.begin(), seen.end(), n) != seen.end()) fail("%s: duplicate walk for key %d returned node %d twice", when, key, n->id);
				seen.push_back(n);
				if (seen.size() > all.size() + 1) fail("%s: duplicate walk does not terminate", when);
			}
			if ((int)seen.size() != count_key(key)) fail("%s: lookup/duplicate walk for key %d found %zu nodes, reference has %d", when, key, seen.size(), count_key(key));
		}
		{
			std::vector<Node *> seen; struct cds_lfht_iter it;
			for (cds_lfht_first(ht, &it); cds_lfht_iter_get_node(&it); cds_lfht_next(ht, &it)) {
				Node *n = (Node *)cds_lfht_iter_get_node(&it);
				if (!is_live(n)) fail("%s: traversal returned node %d which is not stored", when, n->id);
				if (std::find(seen.begin(), seen.end(), n) != seen.end()) fail("%s: traversal returned node %d twice", when, n->id);
				seen.push_back(n);
			}
			if (seen.size() != live.size()) fail("%s: traversal visited %zu nodes, reference has %zu", when, seen.size(), live.size());
		}
		long ab, aa; unsigned long cnt;
		cds_lfht_count_nodes(ht, &ab, &cnt, &aa);
		if (cnt != live.size()) fail("%s: cds_lfht_count_nodes = %lu, reference has %zu", when, cnt, live.size());
		if ((flags & CDS_LFHT_ACCOUNTING) && (ab < 0 || aa < 0)) fail("%s: negative approximate count (%ld, %ld) with ACCOUNTING", when, ab, aa);
		urcu_mb_read_unlock();
		if (glue_ht_size(ht) < 1 || (eff_max && glue_ht_size(ht) > eff_max)) fail("%s: table has %lu buckets, outside [1, max_nr_buckets=%lu]", when, glue_ht_size(ht), eff_max);
	};

	int nops = fdp.ConsumeIntegralInRange<int>(1, 64);
	for (int i = 0; i < nops && fdp.remaining_bytes() > 0; i++) {
		int op = fdp.ConsumeIntegralInRange<int>(0, 13);
		int key = fdp.ConsumeIntegralInRange<int>(0, 7);
		uint64_t h = hpool[key];
		for (Node *n : live) if (n->key != key && hpool[n->key] == h) f_collision = true;
		switch (op) {
		case 0: case 1: {	// add
			Node *n = new_node(key);
			T("add k%d -> n%d", key, n->id);
			if (count_key(key)) f_dup = true;
			urcu_mb_read_lock(); cds_lfht_add(ht, h, &n->n); urcu_mb_read_unlock();
			n->live = n->added = true; live.push_back(n);
			break;
		}
		case 2: {	// add_unique
			Node *n = new_node(key);
			T("add_unique k%d (n%d)", key, n->id);
			urcu_mb_read_lock(); struct cds_lfht_node *r = cds_lfht_add_unique(ht, h, match, &key, &n->n); urcu_mb_read_unlock();
			if (count_key(key) == 0) { if (r != &n->n) fail("add_unique(k%d) on an absent key did not insert its node", key); n->live = n->added = true; live.push_back(n); }
			else { Node *e = (Node *)r; if (r == &n->n) fail("add_unique(k%d) inserted a duplicate although the key is present", key); if (!is_live(e) || e->key != key) fail("add_unique(k%d) returned a node that is not a stored node with that key", key); }
			break;
		}
		case 3: {	// add_replace
			Node *n = new_node(key);
			T("add_replace k%d (n%d)", key, n->id);
			urcu_mb_read_lock(); struct cds_lfht_node *r = cds_lfht_add_replace(ht, h, match, &key, &n->n); urcu_mb_read_unlock();
			if (count_key(key) == 0) { if (r) fail("add_replace(k%d) on an absent key returned a node", key); }
			else { Node *e = (Node *)r; if (!r) fail("add_replace(k%d) returned NULL although the key is present", key); if (!is_live(e) || e->key != key) fail("add_replace(k%d) returned a node that is not a stored node with that key", key); kill(e); }
			n->live = n->added = true; live.push_back(n);
			break;
		}
		case 4: {	// lookup (+ save iterator)
			int slot = fdp.ConsumeIntegralInRange<int>(0, 2);
			T("lookup k%d save=%d", key, slot);
			urcu_mb_read_lock();
			struct cds_lfht_iter it; cds_lfht_lookup(ht, h, match, &key, &it);
			Node *n = (Node *)cds_lfht_iter_get_node(&it);
			urcu_mb_read_unlock();
			if (!n && count_key(key)) fail("lookup(k%d) found nothing, reference has %d", key, count_key(key));
			if (n && (!is_live(n) || n->key != key)) fail("lookup(k%d) returned a node that is not a stored node with that key", key);
			if (n && slot < 2) { saved[slot].it = it; saved[slot].n = n; saved[slot].set = true; }
			break;
		}
		case 5: {	// replace through a fresh lookup
			T("lookup+replace k%d", key);
			Node *nn = new_node(key);
			urcu_mb_read_lock();
			struct cds_lfht_iter it; cds_lfht_lookup(ht, h, match, &key, &it);
			Node *o = (Node *)cds_lfht_iter_get_node(&it);
			int r = o ? cds_lfht_replace(ht, &it, h, match, &key, &nn->n) : -ENOENT;
			urcu_mb_read_unlock();
			if (!o) { if (count_key(key)) fail("lookup(k%d) before replace found nothing, reference has %d", key, count_key(key)); break; }
			if (r) fail("replace of stored node %d returned %d", o->id, r);
			kill(o); nn->live = nn->added = true; live.push_back(nn);
			break;
		}
		case 6: {	// replace through a saved (possibly stale) iterator
			int slot = fdp.ConsumeIntegralInRange<int>(0, 1);
			if (!saved[slot].set) break;
			Node *o = saved[slot].n; int k2 = o->key; Node *nn = new_node(k2);
			T("replace via saved iter %d (n%d k%d) -> n%d", slot, o->id, k2, nn->id);
			cls[12]++;
			urcu_mb_read_lock(); int r = cds_lfht_replace(ht, &saved[slot].it, hpool[k2], match, &k2, &nn->n); urcu_mb_read_unlock();
			saved[slot].set = false;
			if (is_live(o)) { if (r) fail("replace of stored node %d through an earlier iterator returned %d", o->id, r); kill(o); nn->live = nn->added = true; live.push_back(nn); }
			else if (r >= 0) fail("replace of already removed node %d returned %d", o->id, r);
			break;
		}
		case 7: case 8: {	// del of any node ever created (stored: 0; already removed: negative)
			if (all.empty()) break;
			Node *n = all[fdp.ConsumeIntegralInRange<size_t>(0, all.size() - 1)];
			if (!n->added) break;	// only nodes that have been in the table may be passed to del
			T("del n%d (k%d, %s)", n->id, n->key, is_live(n) ? "stored" : "removed");
			urcu_mb_read_lock(); int r = cds_lfht_del(ht, &n->n); urcu_mb_read_unlock();
			if (is_live(n)) { if (r) fail("del of stored node %d returned %d", n->id, r); kill(n); }
			else { cls[15]++; if (r >= 0) fail("del of already removed node %d returned %d", n->id, r); }
			break;
		}
		case 9: T("check"); check_all("check op"); break;
		case 10: case 11: {	// resize
			unsigned long target = fdp.ConsumeBool() ? RESIZE_POOL[fdp.ConsumeIntegralInRange<size_t>(0, sizeof RESIZE_POOL / sizeof *RESIZE_POOL - 1)] : 1UL << fdp.ConsumeIntegralInRange<int>(0, 12);
			T("resize %lu", target);
			f_resize = true;
			unsigned long cl = std::max(target, 1UL); if (eff_max) cl = std::min(cl, eff_max);
			if (cl & (cl - 1)) {
				f_nonpow2 = true; cls[13]++;
				static const char *ex = getenv("VERIF_EXCLUDE");
				if (ex && strstr(ex, "nonpow2_resize")) { T("(excluded by construction: known finding, non-power-of-two target)"); n_excluded++; break; }
			}
			if (mmsel == 1 || (mmsel == 0 && !mx) || mmsel == 4) { if (!eff_max && target > (1UL << 14)) { T("(skipped: unbounded table, target too large to allocate)"); break; } }
			if (eff_max > (1UL << 16) && target > (1UL << 16)) { T("(skipped: too large to allocate)"); break; }
			op_arg = target; op_started = time(NULL);
			cds_lfht_resize(ht, target);
			op_started = 0;
			wait_resize(ht);
			check_all("after resize");
			break;
		}
		case 12: {	// destroy attempt on a possibly non-empty table
			if (live.empty()) break;
			T("destroy (non-empty)");
			wait_resize(ht);
			glue_set_destroying(1);
			int r = cds_lfht_destroy(ht, NULL);
			glue_set_destroying(0);
			if (r == 0) fail("cds_lfht_destroy succeeded on a table holding %zu nodes", live.size());
			cls[14]++;
			check_all("after refused destroy");
			break;
		}
		case 13: {	// duplicate walk for one key
			T("walk k%d", key);
			urcu_mb_read_lock();
			struct cds_lfht_iter it; int c = 0;
			for (cds_lfht_lookup(ht, h, match, &key, &it); cds_lfht_iter_get_node(&it); cds_lfht_next_duplicate(ht, match, &key, &it)) {
				Node *n = (Node *)cds_lfht_iter_get_node(&it);
				if (!is_live(n) || n->key != key) fail("duplicate walk for key %d returned a node that is not stored with that key", key);
				if (++c > (int)all.size() + 1) fail("duplicate walk does not terminate");
			}
			urcu_mb_read_unlock();
			if (c != count_key(key)) fail("duplicate walk for key %d found %d nodes, reference has %d", key, c, count_key(key));
			break;
		}
		}
		if (flags & CDS_LFHT_AUTO_RESIZE) wait_resize(ht);
	}
	check_all("final");
	// empty the table, destroy must succeed
	urcu_mb_read_lock();
	for (Node *n : std::vector<Node *>(live)) { int r = cds_lfht_del(ht, &n->n); if (r) fail("final del of stored node %d returned %d", n->id, r); }
	urcu_mb_read_unlock();
	live.clear();
	wait_resize(ht);
	glue_set_destroying(1);
	int r = cds_lfht_destroy(ht, NULL);
	if (r) fail("cds_lfht_destroy of an empty table returned %d", r);
	urcu_mb_synchronize_rcu();
	if (flags & CDS_LFHT_AUTO_RESIZE) { urcu_mb_barrier(); for (int i = 0; i < 4000 && custom; i++) { { std::lock_guard<std::mutex> g(rec_mu); if (live_allocs.empty()) break; } usleep(500); } }
	if (mmsel == 4) { for (int i = 0; i < 4000 && glue_rec_outstanding(); i++) usleep(250); if (glue_rec_outstanding()) fail("recording bucket allocator: %d bucket levels never freed after cds_lfht_destroy", glue_rec_outstanding()); }
	glue_set_destroying(0);
	if (custom) {
		std::lock_guard<std::mutex> g(rec_mu);
		if (!live_allocs.empty()) fail("custom allocator: %zu blocks still allocated after cds_lfht_destroy", live_allocs.size());
		if (eff_max && peak_bytes > first_alloc + 65536 + eff_max * sizeof(struct cds_lfht_node) * 2) fail("custom allocator: peak %zu bytes exceeds what max_nr_buckets=%lu can need", peak_bytes, eff_max);
	}
	for (Node *n : all) free(n);

	if (flags & 1) cls[3]++;
	if (flags & 2) cls[4]++;
	cls[5 + mmsel]++;
	if (custom) cls[10]++;
	if (f_collision) cls[0]++;
	if (f_dup) cls[1]++;
	if (f_resize) cls[2]++;
	if (f_collision && (f_resize || f_dup)) {
		n_nontrivial_hits++;
		if (nontrivial.size() < 4000000) nontrivial.insert(fnv(trace));
		if (samples.size() < 3 && (n_nontrivial_hits % 97) == 1) samples.push_back(trace);
	}
	(void)f_nonpow2;
	return 0;
}
