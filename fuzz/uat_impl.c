/* C20: one instantiation of every uatomic operation for every operand type.  Compiled four times from /repo/include:
 *   {x86 inline asm (default), CONFIG_RCU_USE_ATOMIC_BUILTINS} x {C, C++}, each with its own symbol prefix -DPFX=<name>.
 * pre == 1: the old value is stored with a plain C assignment in the same function immediately before the operation (the compiler sees both).
 * typed == 1: operands are passed with the operand's own type; 0: as (unsigned) long expressions; 2: as unsigned int; 3: as int - the way callers pass
 * literals and narrower variables (the C conversion of that expression to the operand type is the documented operand value). */
#include <stdint.h>
#include <urcu/uatomic.h>
#include "uat_ops.h"

#define CAT_(a, b) a##b
#define CAT(a, b) CAT_(a, b)
#ifdef __cplusplus
extern "C"
#endif
int CAT(PFX, _apply)(int type, int op, int typed, void *addr, uint64_t a, uint64_t b, uint64_t *ret, int pre, uint64_t init);

#define RET_S(T, v) ((uint64_t)(int64_t)(T)(v))
#define RET_U(T, v) ((uint64_t)(T)(v))
/* PRE: the old value is written by an ordinary C assignment immediately before the operation, in straight-line code, as callers do */
#define OPS(T, RET, WIDE, PRE) \
	switch (op) { \
	case UOP_SET: PRE if (typed == 1) uatomic_set(p, (T)a); else if (typed == 2) uatomic_set(p, (unsigned int)a); else if (typed == 3) uatomic_set(p, (int)a); else uatomic_set(p, (WIDE)a); return 0; \
	case UOP_READ: PRE *ret = RET(T, uatomic_read(p)); return 1; \
	case UOP_XCHG: PRE if (typed == 1) *ret = RET(T, uatomic_xchg(p, (T)a)); else if (typed == 2) *ret = RET(T, uatomic_xchg(p, (unsigned int)a)); else if (typed == 3) *ret = RET(T, uatomic_xchg(p, (int)a)); else *ret = RET(T, uatomic_xchg(p, (WIDE)a)); return 1; \
	case UOP_CMPXCHG: PRE *ret = RET(T, uatomic_cmpxchg(p, (T)a, (T)b)); return 1; \
	case UOP_ADD_RETURN: PRE if (typed == 1) *ret = RET(T, uatomic_add_return(p, (T)a)); else if (typed == 2) *ret = RET(T, uatomic_add_return(p, (unsigned int)a)); else if (typed == 3) *ret = RET(T, uatomic_add_return(p, (int)a)); else *ret = RET(T, uatomic_add_return(p, (WIDE)a)); return 1; \
	case UOP_SUB_RETURN: PRE if (typed == 1) *ret = RET(T, uatomic_sub_return(p, (T)a)); else if (typed == 2) *ret = RET(T, uatomic_sub_return(p, (unsigned int)a)); else if (typed == 3) *ret = RET(T, uatomic_sub_return(p, (int)a)); else *ret = RET(T, uatomic_sub_return(p, (WIDE)a)); return 1; \
	case UOP_ADD: if (typed == 1) { PRE uatomic_add(p, (T)a); } else if (typed == 2) { PRE uatomic_add(p, (unsigned int)a); } else if (typed == 3) { PRE uatomic_add(p, (int)a); } else { PRE uatomic_add(p, (WIDE)a); } return 0; \
	case UOP_SUB: if (typed == 1) { PRE uatomic_sub(p, (T)a); } else if (typed == 2) { PRE uatomic_sub(p, (unsigned int)a); } else if (typed == 3) { PRE uatomic_sub(p, (int)a); } else { PRE uatomic_sub(p, (WIDE)a); } return 0; \
	case UOP_INC: PRE uatomic_inc(p); return 0; \
	case UOP_DEC: PRE uatomic_dec(p); return 0; \
	case UOP_AND: if (typed == 1) { PRE uatomic_and(p, (T)a); } else if (typed == 2) { PRE uatomic_and(p, (unsigned int)a); } else if (typed == 3) { PRE uatomic_and(p, (int)a); } else { PRE uatomic_and(p, (WIDE)a); } return 0; \
	case UOP_OR: if (typed == 1) { PRE uatomic_or(p, (T)a); } else if (typed == 2) { PRE uatomic_or(p, (unsigned int)a); } else if (typed == 3) { PRE uatomic_or(p, (int)a); } else { PRE uatomic_or(p, (WIDE)a); } return 0; \
	case UOP_LOAD: PRE *ret = RET(T, uatomic_load(p)); return 1; \
	case UOP_STORE: PRE uatomic_store(p, (T)a); return 0; \
	}
#define NOPRE
#define BODY(T, RET, WIDE) do { \
	T *p = (T *)addr; \
	if (pre) { OPS(T, RET, WIDE, *p = (T)init;) } else { OPS(T, RET, WIDE, NOPRE) } \
	} while (0)

int CAT(PFX, _apply)(int type, int op, int typed, void *addr, uint64_t a, uint64_t b, uint64_t *ret, int pre, uint64_t init)
{
	switch (type) {
	case UT_S8: BODY(signed char, RET_S, long); break;
	case UT_U8: BODY(unsigned char, RET_U, unsigned long); break;
	case UT_S16: BODY(short, RET_S, long); break;
	case UT_U16: BODY(unsigned short, RET_U, unsigned long); break;
	case UT_S32: BODY(int, RET_S, long); break;
	case UT_U32: BODY(unsigned int, RET_U, unsigned long); break;
	case UT_S64: BODY(long, RET_S, long); break;
	case UT_U64: BODY(unsigned long, RET_U, unsigned long); break;
	}
	return -1;
}
