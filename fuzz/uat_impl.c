/* C20: one instantiation of every uatomic operation for every operand type.  Compiled four times from /repo/include:
 *   {x86 inline asm (default), CONFIG_RCU_USE_ATOMIC_BUILTINS} x {C, C++}, each with its own symbol prefix -DPFX=<name>.
 * typed == 1: operands are passed with the operand's own type; typed == 0: passed as (unsigned) long expressions, the way callers pass literals. */
#include <stdint.h>
#include <urcu/uatomic.h>
#include "uat_ops.h"

#define CAT_(a, b) a##b
#define CAT(a, b) CAT_(a, b)
#ifdef __cplusplus
extern "C"
#endif
int CAT(PFX, _apply)(int type, int op, int typed, void *addr, uint64_t a, uint64_t b, uint64_t *ret);

#define RET_S(T, v) ((uint64_t)(int64_t)(T)(v))
#define RET_U(T, v) ((uint64_t)(T)(v))
#define BODY(T, RET, WIDE) do { \
	T *p = (T *)addr; \
	switch (op) { \
	case UOP_SET: if (typed) uatomic_set(p, (T)a); else uatomic_set(p, (WIDE)a); return 0; \
	case UOP_READ: *ret = RET(T, uatomic_read(p)); return 1; \
	case UOP_XCHG: if (typed) *ret = RET(T, uatomic_xchg(p, (T)a)); else *ret = RET(T, uatomic_xchg(p, (WIDE)a)); return 1; \
	case UOP_CMPXCHG: *ret = RET(T, uatomic_cmpxchg(p, (T)a, (T)b)); return 1; \
	case UOP_ADD_RETURN: if (typed) *ret = RET(T, uatomic_add_return(p, (T)a)); else *ret = RET(T, uatomic_add_return(p, (WIDE)a)); return 1; \
	case UOP_SUB_RETURN: if (typed) *ret = RET(T, uatomic_sub_return(p, (T)a)); else *ret = RET(T, uatomic_sub_return(p, (WIDE)a)); return 1; \
	case UOP_ADD: if (typed) uatomic_add(p, (T)a); else uatomic_add(p, (WIDE)a); return 0; \
	case UOP_SUB: if (typed) uatomic_sub(p, (T)a); else uatomic_sub(p, (WIDE)a); return 0; \
	case UOP_INC: uatomic_inc(p); return 0; \
	case UOP_DEC: uatomic_dec(p); return 0; \
	case UOP_AND: if (typed) uatomic_and(p, (T)a); else uatomic_and(p, (WIDE)a); return 0; \
	case UOP_OR: if (typed) uatomic_or(p, (T)a); else uatomic_or(p, (WIDE)a); return 0; \
	case UOP_LOAD: *ret = RET(T, uatomic_load(p)); return 1; \
	case UOP_STORE: uatomic_store(p, (T)a); return 0; \
	} } while (0)

int CAT(PFX, _apply)(int type, int op, int typed, void *addr, uint64_t a, uint64_t b, uint64_t *ret)
{
	switch (type) {
	case UT_S8: BODY(signed char, RET_S, long); break;
	case UT_U8: BODY(unsigned char, RET_U, unsigned long); break;
	case UT_S16: BODY(short, RET_S, long); break;
	case UT_U16: BODY(unsigned short, RET_U, unsigned long); break;
	case UT_S32: BODY(int, RET_S, long); break;
	case UT_U32: BODY(unsigned int, RET_U, unsigned long); break;
	case UT_S64: BODY(long, RET_S, long); break;
	case UT_U64: BODY(unsigned long, RET_U, unsigned long); break;
	}
	return -1;
}
